// ---- prelude/stream.rs: assumed contracts on bytes::Buf, futures Stream objects, sync_wrapper, Entity objects ----
pub mod pre {
    use vstd::prelude::*;
    use std::task::Poll;
    use std::ops::Range;
    use vstd::std_specs::convert::*;

    /// std::task::Waker / Context: a waker is identified by the task it wakes.
    pub struct Waker { pub id: u64 }
    pub struct Context { pub w: Waker }

    /// bytes::Buf: a chunk is its byte sequence; `remaining()` is its length.
    pub trait Buf: Sized {
        spec fn bytes(&self) -> Seq<u8>;
        fn remaining(&self) -> (r: usize) ensures r == self.bytes().len();
        /// `chunk()`: SOME non-empty prefix of the remaining bytes (the whole of them only for contiguous buffers).
        fn chunk(&self) -> (r: &[u8]) ensures r@.len() <= self.bytes().len(), self.bytes().len() > 0 ==> r@.len() > 0, r@ =~= self.bytes().subrange(0, r@.len() as int);
        /// `has_remaining()`: `remaining() > 0` (bytes::Buf's provided method).
        fn has_remaining(&self) -> (r: bool) ensures r == (self.bytes().len() > 0);
    }
    /// The entity's Data type: `Buf + From<Vec<u8>> + From<&'static [u8]>` as in the real bounds.  Assumed (it is
    /// the quantified input "an entity that honours its contract"): both conversions preserve the bytes.
    pub trait DataT: Buf + From<Vec<u8>> + From<&'static [u8]> {}
    pub broadcast axiom fn data_from_vec<D: DataT>(v: Vec<u8>)
        ensures (#[trigger] <D as FromSpec<Vec<u8>>>::from_spec(v)).bytes() == v@;
    pub broadcast axiom fn data_from_vec_obeys<D: DataT>()
        ensures #[trigger] <D as FromSpec<Vec<u8>>>::obeys_from_spec();
    pub broadcast axiom fn data_from_static<D: DataT>(v: &'static [u8])
        ensures (#[trigger] <D as FromSpec<&'static [u8]>>::from_spec(v)).bytes() == v@;
    pub broadcast axiom fn data_from_static_obeys<D: DataT>()
        ensures #[trigger] <D as FromSpec<&'static [u8]>>::obeys_from_spec();
    pub broadcast group data_axioms { data_from_vec, data_from_vec_obeys, data_from_static, data_from_static_obeys, stream_origin_stable }
    /// Polling a stream does not change which `get_range` call created it.
    pub broadcast axiom fn stream_origin_stable<D, E>(s: Inner<D, E>)
        ensures (#[trigger] s.after()).origin() == s.origin();
    /// std::error::Error marker and `E: From<BoxError>` (error injection by http-serve).
    pub trait StdError {}
    pub trait FromBoxError: Sized { fn from<T: StdError>(b: Box<T>) -> Self; }

    /// `Pin<Box<dyn Stream<Item = Result<D, E>> + Send>>` returned by `Entity::get_range`, as a prophecy-style
    /// object: `next_item()` is what the next poll returns, `after()` the stream after that poll, `origin()`
    /// names the `get_range` call that created it (entity id, start, end).  The stream itself is unconstrained:
    /// it may end early, fail, return too much, return empty chunks or Pending at any point.
    #[verifier::external_body]
    #[verifier::reject_recursive_types(D)]
    #[verifier::reject_recursive_types(E)]
    pub struct Inner<D, E> { _d: std::marker::PhantomData<Box<(D, E)>> }
    impl<D, E> Inner<D, E> {
        pub uninterp spec fn next_item(&self) -> Poll<Option<Result<D, E>>>;
        pub uninterp spec fn after(&self) -> Self;
        pub uninterp spec fn origin(&self) -> (int, u64, u64);
        #[verifier::external_body]
        pub fn poll_next(&mut self, cx: &mut Context) -> (r: Poll<Option<Result<D, E>>>)
            ensures r == old(self).next_item(), *final(self) == old(self).after(), final(self).origin() == old(self).origin()
        { unimplemented!() }
    }
    /// sync_wrapper::SyncWrapper::new is the identity on the wrapped value.
    pub struct SyncWrapper;
    impl SyncWrapper { pub fn new<T>(t: T) -> (r: T) ensures r == t { t } }

    /// http_body::Frame: a data frame is its payload.
    pub struct Frame<D> { pub data: D }
    impl<D> Frame<D> { pub fn data(d: D) -> (r: Frame<D>) ensures r.data == d { Frame { data: d } } }
    /// http_body::SizeHint.
    pub struct SizeHint { pub lower: u64, pub upper: Option<u64> }
    impl SizeHint {
        pub fn lower(&self) -> (r: u64) ensures r == self.lower { self.lower }
        pub fn upper(&self) -> (r: Option<u64>) ensures r == self.upper { self.upper }
        pub fn with_exact(n: u64) -> (r: SizeHint) ensures r.lower == n, r.upper == Some(n) { SizeHint { lower: n, upper: Some(n) } }
    }
    /// chunker::Reader as seen from body.rs: its own contract is proved in unit `chunker`.
    #[verifier::external_body]
    #[verifier::reject_recursive_types(D)]
    #[verifier::reject_recursive_types(E)]
    pub struct Reader<D, E> { _d: std::marker::PhantomData<Box<(D, E)>> }
    impl<D, E> Reader<D, E> {
        pub uninterp spec fn queued_bytes(&self) -> nat;
        pub uninterp spec fn size_hint_spec(&self) -> SizeHint;
        pub uninterp spec fn eos_spec(&self) -> bool;
        pub uninterp spec fn poll_rel(&self, r: Poll<Option<Result<D, E>>>, after: Self) -> bool;
        #[verifier::external_body]
        pub fn size_hint(&self) -> (r: SizeHint) ensures r == self.size_hint_spec() { unimplemented!() }
        #[verifier::external_body]
        pub fn is_end_stream(&self) -> (r: bool) ensures r == self.eos_spec() { unimplemented!() }
        #[verifier::external_body]
        pub fn poll_next(&mut self, cx: &mut Context) -> (r: Poll<Option<Result<D, E>>>) ensures old(self).poll_rel(r, *final(self)) { unimplemented!() }
    }

    /// `Box<dyn Entity<Data = D, Error = E>>`: only `get_range` is used by the streams.
    #[verifier::external_body]
    #[verifier::reject_recursive_types(D)]
    #[verifier::reject_recursive_types(E)]
    pub struct EntityBox<D, E> { _d: std::marker::PhantomData<Box<(D, E)>> }
    impl<D, E> EntityBox<D, E> {
        pub uninterp spec fn id(&self) -> int;
        #[verifier::external_body]
        pub fn get_range(&self, r: Range<u64>) -> (s: Inner<D, E>)
            ensures s.origin() == (self.id(), r.start, r.end)
        { unimplemented!() }
    }
}
