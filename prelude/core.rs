// ---- prelude/core.rs: assumed contracts on core/std (no http-serve logic) ----
#[verifier::external_type_specification]
#[verifier::accept_recursive_types(T)]
pub struct ExPoll<T>(std::task::Poll<T>);

global size_of usize == 8;
use vstd::std_specs::cmp::*;

pub mod ax {
    use vstd::prelude::*;
    /// `Default::default()` as a specification value.
    pub uninterp spec fn dflt<T>() -> T;
    pub broadcast axiom fn dflt_u64() ensures #[trigger] dflt::<u64>() == 0u64;
    pub broadcast axiom fn dflt_vec_u8() ensures (#[trigger] dflt::<Vec<u8>>())@ == Seq::<u8>::empty();
}

pub assume_specification<T: Default>[ std::mem::take::<T> ](x: &mut T) -> (r: T)
    ensures r == *old(x), *final(x) == ax::dflt::<T>();
pub assume_specification<T>[ std::mem::replace::<T> ](x: &mut T, v: T) -> (r: T)
    ensures r == *old(x), *final(x) == v;
pub assume_specification<T: Clone>[ <std::ops::Range<T> as Clone>::clone ](r: &std::ops::Range<T>) -> (x: std::ops::Range<T>)
    ensures x.start == r.start, x.end == r.end;

/// std::cmp::min (assumed std contract, stated over the type's specified total order).
pub assume_specification<T: Ord>[ std::cmp::min::<T> ](a: T, b: T) -> (r: T)
    ensures T::obeys_cmp_spec() ==> r == (if a.cmp_spec(&b) == std::cmp::Ordering::Greater { b } else { a });
pub assume_specification<T: Ord>[ std::cmp::max::<T> ](a: T, b: T) -> (r: T)
    ensures T::obeys_cmp_spec() ==> r == (if b.cmp_spec(&a) == std::cmp::Ordering::Less { a } else { b });
/// Vec::dedup (assumed std contract, deliberately partial): removes consecutive repeated elements - never grows, keeps
/// the first element.  A change that starts using it is analysed against this contract instead of being unanalysable.
pub assume_specification<T: PartialEq, A: std::alloc::Allocator>[ Vec::<T, A>::dedup ](v: &mut Vec<T, A>)
    ensures final(v)@.len() <= old(v)@.len(), old(v)@.len() > 0 ==> (final(v)@.len() > 0 && final(v)@[0] == old(v)@[0]),
        forall|j: int| 0 <= j < final(v)@.len() ==> old(v)@.contains(#[trigger] final(v)@[j]);
/// Slice / Vec reordering and filtering (assumed std contracts, deliberately partial: same elements, order unspecified).  A change
/// that starts reordering or filtering a vector is analysed against these contracts instead of being unanalysable.
pub assume_specification<T, K: Ord, F: FnMut(&T) -> K>[ <[T]>::sort_by_key::<K, F> ](s: &mut [T], f: F)
    ensures final(s)@.len() == old(s)@.len(), final(s)@.to_multiset() == old(s)@.to_multiset();
pub assume_specification<T, K: Ord, F: FnMut(&T) -> K>[ <[T]>::sort_unstable_by_key::<K, F> ](s: &mut [T], f: F)
    ensures final(s)@.len() == old(s)@.len(), final(s)@.to_multiset() == old(s)@.to_multiset();
pub assume_specification<T, F: FnMut(&T, &T) -> std::cmp::Ordering>[ <[T]>::sort_by::<F> ](s: &mut [T], f: F)
    ensures final(s)@.len() == old(s)@.len(), final(s)@.to_multiset() == old(s)@.to_multiset();
pub assume_specification<T: Ord>[ <[T]>::sort ](s: &mut [T])
    ensures final(s)@.len() == old(s)@.len(), final(s)@.to_multiset() == old(s)@.to_multiset();
pub assume_specification<T: Ord>[ <[T]>::sort_unstable ](s: &mut [T])
    ensures final(s)@.len() == old(s)@.len(), final(s)@.to_multiset() == old(s)@.to_multiset();
pub assume_specification<T>[ <[T]>::reverse ](s: &mut [T])
    ensures final(s)@ == old(s)@.reverse();
pub assume_specification<T, A: std::alloc::Allocator, F: FnMut(&T) -> bool>[ Vec::<T, A>::retain::<F> ](v: &mut Vec<T, A>, f: F)
    ensures final(v)@.len() <= old(v)@.len(), forall|j: int| 0 <= j < final(v)@.len() ==> old(v)@.contains(#[trigger] final(v)@[j]);
/// std::mem::drop: consumes its argument (no observable effect for the plain data the extracted code drops early).
pub assume_specification<T>[ std::mem::drop::<T> ](x: T);
/// Result::and_then / Option::and_then with a closure (std definitions, stated through the closure's own specification).
pub assume_specification<T, E, U, F: FnOnce(T) -> Result<U, E>>[ Result::<T, E>::and_then::<U, F> ](r: Result<T, E>, f: F) -> (o: Result<U, E>)
    requires r matches Ok(v) ==> f.requires((v,)),
    ensures match r { Ok(v) => f.ensures((v,), o), Err(e) => o == Err::<U, E>(e) };
