// ---- prelude/glue2.rs (inside verus!): std fmt into a Vec, entity objects, body types as seen by serving.rs ----
pub mod fmtw {
    use vstd::prelude::*;
    /// Bytes produced by formatting the literal with three u64 arguments (`Display` of integers: assumed decimal).
    pub uninterp spec fn fmt3(f: Seq<char>, a: u64, b: u64, c: u64) -> Seq<u8>;
    pub struct FmtResult;
    impl FmtResult { pub fn unwrap(self) {} }
    /// `write!(&mut Vec<u8>, lit, a, b, c)`: appends; never fails for a Vec.
    #[verifier::external_body]
    pub fn write_fmt3(dst: &mut Vec<u8>, f: &'static str, a: u64, b: u64, c: u64) -> (r: FmtResult)
        ensures final(dst)@ == old(dst)@ + fmt3(f@, a, b, c)
    { unimplemented!() }
    /// A Vec<u8> never holds more than isize::MAX bytes (std guarantee).
    pub broadcast axiom fn vec_len_bound(v: Vec<u8>) ensures #[trigger] v@.len() <= 0x7fff_ffff_ffff_ffff;
    /// A Vec<Range<u64>> (16-byte elements) never holds more than isize::MAX / 16 elements (std guarantee).
    pub broadcast axiom fn vec_ranges_len_bound(v: Vec<std::ops::Range<u64>>) ensures #[trigger] v@.len() <= 0x07ff_ffff_ffff_ffff;
}

pub mod ent {
    use vstd::prelude::*;
    use std::ops::Range;
    use crate::http::{HeaderMap, HeaderValue, HV};
    use crate::stub::SystemTime;
    /// The stream object `Entity::get_range` returns (opaque here; its behaviour is quantified over in unit `streams`).
    #[verifier::external_body]
    #[verifier::reject_recursive_types(D)]
    #[verifier::reject_recursive_types(E)]
    pub struct InnerStream<D, E> { _d: std::marker::PhantomData<Box<(D, E)>> }
    /// `&dyn Entity<Data = D, Error = E>` / `Box<dyn Entity<..>>`: its observations are uninterpreted functions of the
    /// entity (the quantified input); `get_range` calls are recorded in a ghost log (rule R28).
    #[verifier::external_body]
    #[verifier::reject_recursive_types(D)]
    #[verifier::reject_recursive_types(E)]
    pub struct EntityRef<D, E> { _d: std::marker::PhantomData<Box<(D, E)>> }
    pub uninterp spec fn e_len<D, E>(e: &EntityRef<D, E>) -> u64;
    pub uninterp spec fn e_etag<D, E>(e: &EntityRef<D, E>) -> Option<HeaderValue>;
    pub uninterp spec fn e_lm<D, E>(e: &EntityRef<D, E>) -> Option<SystemTime>;
    pub uninterp spec fn e_stream<D, E>(e: &EntityRef<D, E>, a: u64, b: u64) -> InnerStream<D, E>;
    /// The header lines `add_headers` appends, rendered `name: value\r\n` (entity-defined, opaque).
    pub uninterp spec fn e_hdr_entries<D, E>(e: &EntityRef<D, E>) -> Seq<(Seq<u8>, Seq<u8>)>;
    impl<D, E> EntityRef<D, E> {
        #[verifier::external_body] pub fn len(&self) -> (r: u64) ensures r == e_len(self) { unimplemented!() }
        #[verifier::external_body] pub fn etag(&self) -> (r: Option<HeaderValue>) ensures r == e_etag(self) { unimplemented!() }
        #[verifier::external_body] pub fn last_modified(&self) -> (r: Option<SystemTime>) ensures r == e_lm(self) { unimplemented!() }
        #[verifier::external_body] pub fn get_range(&self, r: Range<u64>, calls: &mut Ghost<Seq<(u64, u64)>>) -> (s: InnerStream<D, E>)
            ensures s == e_stream(self, r.start, r.end), final(calls)@ == old(calls)@.push((r.start, r.end)) { unimplemented!() }
        #[verifier::external_body] pub fn add_headers(&self, h: &mut HeaderMap)
            ensures final(h).entity_hdrs@, final(h).m == old(h).m, final(h).appended == old(h).appended, final(h).entries@ == old(h).entries@ + e_hdr_entries(self), old(h).entries@.len() == 0 ==> final(h).entries@ == e_hdr_entries(self) { unimplemented!() }
    }
}

pub mod body {
    use vstd::prelude::*;
    use crate::ent::InnerStream;
    /// body.rs as seen by serving.rs; `ExactLenStream::new`'s contract is the one proved in unit `streams`.
    #[verifier::reject_recursive_types(D)]
    #[verifier::reject_recursive_types(E)]
    pub struct ExactLenStream<D, E> { pub stream: InnerStream<D, E>, pub remaining: u64 }
    impl<D, E> ExactLenStream<D, E> {
        pub fn new(len: u64, stream: InnerStream<D, E>) -> (r: Self) ensures r.remaining == len, r.stream == stream { Self { stream, remaining: len } }
    }
    #[verifier::reject_recursive_types(D)]
    #[verifier::reject_recursive_types(E)]
    pub enum BodyStream<D, E> { Once(Ghost<Option<Seq<char>>>), ExactLen(ExactLenStream<D, E>), Multipart(crate::MultipartStream<D, E>) }
    #[verifier::reject_recursive_types(D)]
    #[verifier::reject_recursive_types(E)]
    pub struct Body<D, E>(pub BodyStream<D, E>);
    impl<D, E> Body<D, E> {
        /// `Body::from(&'static str)`: a one-frame body holding that text (proved for byte slices in unit `streams`).
        #[verifier::external_body]
        pub fn from(s: &'static str) -> (r: Self) ensures r.0 == BodyStream::<D, E>::Once(Ghost(Some(s@))) { unimplemented!() }
        pub fn empty() -> (r: Self) ensures r.0 == BodyStream::<D, E>::Once(Ghost(None)) { Body(BodyStream::Once(Ghost(None))) }
    }
}
