// ---- prelude/str.rs: opaque `&str` API (assumed contracts on core::str and u64::from_str) ----
// Verus has no byte/char view of `str`.  A string slice is an opaque value `Str`; the lexical primitives the code
// uses are uninterpreted specification functions.  What is PROVED is the code built on them; what `split`, `find`,
// `trim`, slicing and integer parsing mean is ASSUMED here (and checked on the real `str` code by the Kani units).
pub mod strs {
    use vstd::prelude::*;
    #[derive(Clone, Copy)]
    pub struct Str { pub id: int }
    pub uninterp spec fn sp_split(s: Str, sep: char) -> Seq<Str>;
    pub uninterp spec fn sp_split_once(s: Str, sep: char) -> Option<(Str, Str)>;
    pub uninterp spec fn sp_trim_start(s: Str) -> Str;      // trim_start_matches([' ', '\t'])
    pub uninterp spec fn sp_trim(s: Str) -> Str;            // trim()
    pub uninterp spec fn sp_trim_start_ws(s: Str) -> Str;   // trim_start()
    pub uninterp spec fn sp_trim_end_ws(s: Str) -> Str;     // trim_end()
    pub uninterp spec fn sp_find(s: Str, c: char) -> Option<usize>;
    pub uninterp spec fn sp_len(s: Str) -> usize;
    pub uninterp spec fn sp_slice(s: Str, a: usize, b: usize) -> Str;
    pub uninterp spec fn sp_u64(s: Str) -> Option<u64>;     // u64::from_str
    pub uninterp spec fn sp_strip_prefix(s: Str, p: Seq<char>) -> Option<Str>;
    pub uninterp spec fn sp_is(s: Str, lit: Seq<char>) -> bool;   // s == "literal"
    pub uninterp spec fn sp_is_nocase(s: Str, lit: Seq<char>) -> bool;   // s.eq_ignore_ascii_case("literal")
    pub uninterp spec fn sp_starts_with(s: Str, lit: Seq<char>) -> bool;
    pub uninterp spec fn sp_ends_with(s: Str, lit: Seq<char>) -> bool;
    pub uninterp spec fn sp_char_boundary(s: Str, i: usize) -> bool;
    /// `str::split(sep)` as an iterator over its (assumed) element sequence; `split` always yields >= 1 element.
    pub struct Split { pub rest: Ghost<Seq<Str>> }
    impl Split {
        #[verifier::external_body]
        pub fn next(&mut self) -> (r: Option<Str>)
            ensures old(self).rest@.len() == 0 ==> r.is_none() && final(self).rest@ == old(self).rest@,
                    old(self).rest@.len() > 0 ==> r == Some(old(self).rest@[0]) && final(self).rest@ == old(self).rest@.subrange(1, old(self).rest@.len() as int)
        { unimplemented!() }
    }
    impl Str {
        #[verifier::external_body] pub fn split(&self, sep: char) -> (r: Split) ensures r.rest@ == sp_split(*self, sep) { unimplemented!() }
        #[verifier::external_body] pub fn split_once(&self, sep: char) -> (r: Option<(Str, Str)>) ensures r == sp_split_once(*self, sep) { unimplemented!() }
        #[verifier::external_body] pub fn trim_start_matches(&self, pat: [char; 2]) -> (r: Str) requires pat[0] == ' ', pat[1] == '\t' ensures r == sp_trim_start(*self) { unimplemented!() }
        #[verifier::external_body] pub fn trim(&self) -> (r: Str) ensures r == sp_trim(*self) { unimplemented!() }
        #[verifier::external_body] pub fn trim_start(&self) -> (r: Str) ensures r == sp_trim_start_ws(*self) { unimplemented!() }
        #[verifier::external_body] pub fn trim_end(&self) -> (r: Str) ensures r == sp_trim_end_ws(*self) { unimplemented!() }
        #[verifier::external_body] pub fn find(&self, c: char) -> (r: Option<usize>) ensures r == sp_find(*self, c), r matches Some(h) ==> h < sp_len(*self) { unimplemented!() }
        #[verifier::external_body] pub fn len(&self) -> (r: usize) ensures r == sp_len(*self) { unimplemented!() }
        /// `&s[a..b]` (rule R19): the slicing panic conditions are preconditions.
        #[verifier::external_body] pub fn slice(&self, a: usize, b: usize) -> (r: Str) requires a <= b <= sp_len(*self) ensures r == sp_slice(*self, a, b) { unimplemented!() }
        /// `split_at(mid)` panics unless `mid` is a char boundary within the string: precondition (ASCII strings: every index <= len is one).
        #[verifier::external_body] pub fn split_at(&self, mid: usize) -> (r: (Str, Str)) requires mid <= sp_len(*self), sp_char_boundary(*self, mid) ensures r.0 == sp_slice(*self, 0, mid), r.1 == sp_slice(*self, mid, sp_len(*self)) { unimplemented!() }
        #[verifier::external_body] pub fn eq_ignore_ascii_case(&self, lit: &str) -> (r: bool) ensures r == sp_is_nocase(*self, lit@) { unimplemented!() }
        #[verifier::external_body] pub fn starts_with(&self, lit: &str) -> (r: bool) ensures r == sp_starts_with(*self, lit@) { unimplemented!() }
        #[verifier::external_body] pub fn ends_with(&self, lit: &str) -> (r: bool) ensures r == sp_ends_with(*self, lit@) { unimplemented!() }
        #[verifier::external_body] pub fn is_empty(&self) -> (r: bool) ensures r == (sp_len(*self) == 0) { unimplemented!() }
        #[verifier::external_body] pub fn strip_prefix(&self, p: &str) -> (r: Option<Str>) ensures r == sp_strip_prefix(*self, p@) { unimplemented!() }
        #[verifier::external_body] pub fn is(&self, lit: &str) -> (r: bool) ensures r == sp_is(*self, lit@) { unimplemented!() }
    }
    /// `s == "literal"` (PartialEq<&str> for str): its std meaning, named `sp_is`.
    impl vstd::std_specs::cmp::PartialEqSpecImpl<&'static str> for Str {
        open spec fn obeys_eq_spec() -> bool { true }
        open spec fn eq_spec(&self, o: &&'static str) -> bool { sp_is(*self, (*o)@) }
    }
    impl PartialEq<&'static str> for Str {
        #[verifier::external_body]
        fn eq(&self, o: &&'static str) -> (r: bool) { unimplemented!() }
    }
    pub struct ParseIntError;
    /// `u64::from_str` (rule R20).
    #[verifier::external_body] pub fn u64_from_str(s: Str) -> (r: Result<u64, ParseIntError>) ensures r.is_ok() == sp_u64(s).is_some(), r matches Ok(v) ==> v == sp_u64(s).unwrap() { unimplemented!() }
}
