// ---- prelude/str.rs: `&str` as its bytes (assumed contracts on core::str, with their byte-level meaning spelled out) ----
// Verus has no byte/char view of `str`.  A string slice is the stand-in `Str`, whose ghost view `b()` is the sequence of
// its UTF-8 bytes.  Every lexical primitive the code uses is an `external_body` function (ASSUMED contract on std) whose
// postcondition is a DEFINED specification function over those bytes - `split` is "cut at every separator byte",
// `find` is "first index", `trim_matches([' ', '\t'])` is "drop SP / HTAB from both ends", slicing is `subrange` - so
// that the specifications of the units (`specs/range_spec.rs`, unit `gz`) can be written from the RFC grammars over
// bytes, independently of how the code composes the primitives.  All patterns used are ASCII, for which the byte-level
// reading of the std functions is exact on any UTF-8 string; the functions whose std meaning depends on Unicode
// (`trim*` without a pattern) and the slicing panics on non-boundaries carry `is_ascii` / char-boundary preconditions
// (every `Str` in the units comes from `HeaderValue::to_str`, which only succeeds on visible ASCII and HTAB).
pub mod strs {
    use vstd::prelude::*;
    #[derive(Clone, Copy)]
    pub struct Str { pub g: Ghost<Seq<u8>> }
    impl Str { pub open spec fn b(self) -> Seq<u8> { self.g@ } }
    pub open spec fn mk(b: Seq<u8>) -> Str { Str { g: Ghost(b) } }
    /// The bytes of an ASCII literal (`"bytes="@` is its sequence of chars).
    pub open spec fn lit(p: Seq<char>) -> Seq<u8> { Seq::new(p.len(), |i: int| p[i] as u8) }
    pub open spec fn is_ascii(s: Seq<u8>) -> bool { forall|i: int| 0 <= i < s.len() ==> #[trigger] s[i] < 0x80u8 }
    /// `HeaderValue::to_str` succeeds on these bytes only (http 1.x: `b >= 32 && b < 127 || b == b'\t'`).
    pub open spec fn is_visible(s: Seq<u8>) -> bool { forall|i: int| 0 <= i < s.len() ==> ((0x20u8 <= #[trigger] s[i] && s[i] < 0x7fu8) || s[i] == 0x09u8) }
    /// Index i is a UTF-8 char boundary of s (i <= len): the end, or not a continuation byte.
    pub open spec fn boundary(s: Seq<u8>, i: int) -> bool { i == s.len() || (0 <= i < s.len() && !(0x80u8 <= s[i] && s[i] <= 0xbfu8)) }

    /// First index >= from holding byte c.
    pub open spec fn first_at(s: Seq<u8>, from: int, c: u8) -> Option<int>
        decreases s.len() - from
    {
        if from < 0 || from >= s.len() { None } else if s[from] == c { Some(from) } else { first_at(s, from + 1, c) }
    }
    pub proof fn lemma_first_at(s: Seq<u8>, from: int, c: u8)
        ensures first_at(s, from, c) matches Some(q) ==> (from <= q < s.len() && s[q] == c && forall|j: int| from <= j < q ==> s[j] != c),
                (first_at(s, from, c) is None && from >= 0) ==> forall|j: int| from <= j < s.len() ==> s[j] != c,
        decreases s.len() - from
    { if from >= 0 && from < s.len() && s[from] != c { lemma_first_at(s, from + 1, c); } }

    /// `split(sep)`: cut at every separator byte; always at least one piece, pieces may be empty.
    pub open spec fn split_b(s: Seq<u8>, sep: u8) -> Seq<Seq<u8>>
        decreases s.len()
    {
        match first_at(s, 0, sep) {
            None => seq![s],
            Some(q) => if 0 <= q < s.len() { seq![s.subrange(0, q)] + split_b(s.subrange(q + 1, s.len() as int), sep) } else { seq![s] },
        }
    }
    pub open spec fn strs_of(p: Seq<Seq<u8>>) -> Seq<Str> { Seq::new(p.len(), |i: int| mk(p[i])) }
    pub proof fn lemma_split_ascii(s: Seq<u8>, sep: u8)
        requires is_ascii(s)
        ensures split_b(s, sep).len() >= 1, forall|k: int| 0 <= k < split_b(s, sep).len() ==> is_ascii(#[trigger] split_b(s, sep)[k]),
        decreases s.len()
    {
        lemma_first_at(s, 0, sep);
        if let Some(q) = first_at(s, 0, sep) {
            let rest = s.subrange(q + 1, s.len() as int);
            lemma_split_ascii(rest, sep);
            assert forall|k: int| 0 <= k < split_b(s, sep).len() implies is_ascii(#[trigger] split_b(s, sep)[k]) by {
                if k > 0 { assert(split_b(s, sep)[k] == split_b(rest, sep)[k - 1]); }
            }
        }
    }
    /// Number of leading bytes satisfying `p` / end index once the trailing bytes satisfying `p` are removed.
    pub open spec fn lead(s: Seq<u8>, p: spec_fn(u8) -> bool, from: int) -> int
        decreases s.len() - from
    { if 0 <= from < s.len() && p(s[from]) { lead(s, p, from + 1) } else { from } }
    pub open spec fn trail(s: Seq<u8>, p: spec_fn(u8) -> bool, to: int, floor: int) -> int
        decreases to - floor
    { if floor < to <= s.len() && p(s[to - 1]) { trail(s, p, to - 1, floor) } else { to } }
    pub proof fn lemma_lead(s: Seq<u8>, p: spec_fn(u8) -> bool, from: int)
        requires 0 <= from <= s.len()
        ensures from <= lead(s, p, from) <= s.len(), forall|j: int| from <= j < lead(s, p, from) ==> p(s[j]), lead(s, p, from) < s.len() ==> !p(s[lead(s, p, from)]),
        decreases s.len() - from
    { if from < s.len() && p(s[from]) { lemma_lead(s, p, from + 1); } }
    pub proof fn lemma_trail(s: Seq<u8>, p: spec_fn(u8) -> bool, to: int, floor: int)
        requires 0 <= floor <= to <= s.len()
        ensures floor <= trail(s, p, to, floor) <= to, forall|j: int| trail(s, p, to, floor) <= j < to ==> p(s[j]), trail(s, p, to, floor) > floor ==> !p(s[trail(s, p, to, floor) - 1]),
        decreases to - floor
    { if floor < to && p(s[to - 1]) { lemma_trail(s, p, to - 1, floor); } }
    pub open spec fn is_ows() -> spec_fn(u8) -> bool { |c: u8| c == 0x20u8 || c == 0x09u8 }
    /// Unicode White_Space restricted to ASCII (what `trim*()` strips from an ASCII string).
    pub open spec fn is_ws() -> spec_fn(u8) -> bool { |c: u8| c == 0x20u8 || (0x09u8 <= c && c <= 0x0du8) }
    pub open spec fn trim_start_b(s: Seq<u8>, p: spec_fn(u8) -> bool) -> Seq<u8> { s.subrange(lead(s, p, 0), s.len() as int) }
    pub open spec fn trim_end_b(s: Seq<u8>, p: spec_fn(u8) -> bool) -> Seq<u8> { s.subrange(0, trail(s, p, s.len() as int, 0)) }
    pub open spec fn trim_b(s: Seq<u8>, p: spec_fn(u8) -> bool) -> Seq<u8> { s.subrange(lead(s, p, 0), trail(s, p, s.len() as int, lead(s, p, 0))) }
    pub proof fn lemma_trim_ascii(s: Seq<u8>, p: spec_fn(u8) -> bool)
        requires is_ascii(s)
        ensures is_ascii(trim_start_b(s, p)), is_ascii(trim_end_b(s, p)), is_ascii(trim_b(s, p)), trim_b(s, p).len() <= s.len(),
    { lemma_lead(s, p, 0); lemma_trail(s, p, s.len() as int, 0); lemma_trail(s, p, s.len() as int, lead(s, p, 0)); }

    /// Trimming the two ends one after the other (in either order) is trimming both: `trim_start_matches(p).trim_end_matches(p)`.
    pub proof fn lemma_trail_shift(s: Seq<u8>, p: spec_fn(u8) -> bool, k: int, to: int)
        requires 0 <= k <= to <= s.len()
        ensures trail(s.subrange(k, s.len() as int), p, to - k, 0) == trail(s, p, to, k) - k
        decreases to - k
    {
        let t = s.subrange(k, s.len() as int);
        if k < to { assert(t[to - k - 1] == s[to - 1]); if p(s[to - 1]) { lemma_trail_shift(s, p, k, to - 1); } }
    }
    pub broadcast proof fn lemma_trim_two_steps(s: Seq<u8>, p: spec_fn(u8) -> bool)
        ensures #[trigger] trim_end_b(trim_start_b(s, p), p) == trim_b(s, p),
    {
        lemma_lead(s, p, 0);
        let k = lead(s, p, 0);
        lemma_trail_shift(s, p, k, s.len() as int);
        lemma_trail(s, p, s.len() as int, k);
        assert(trim_end_b(trim_start_b(s, p), p) =~= trim_b(s, p));
    }
    pub open spec fn starts_with_b(s: Seq<u8>, p: Seq<u8>) -> bool { s.len() >= p.len() && s.subrange(0, p.len() as int) =~= p }
    pub open spec fn ends_with_b(s: Seq<u8>, p: Seq<u8>) -> bool { s.len() >= p.len() && s.subrange(s.len() - p.len(), s.len() as int) =~= p }
    pub open spec fn lower(c: u8) -> u8 { if 0x41u8 <= c && c <= 0x5au8 { (c + 0x20u8) as u8 } else { c } }
    pub open spec fn eq_nocase_b(a: Seq<u8>, b: Seq<u8>) -> bool { a.len() == b.len() && forall|i: int| 0 <= i < a.len() ==> lower(#[trigger] a[i]) == lower(b[i]) }

    // ---- decimal numbers ----
    pub open spec fn is_digit(c: u8) -> bool { 0x30u8 <= c && c <= 0x39u8 }
    /// `1*DIGIT`
    pub open spec fn all_digits(s: Seq<u8>) -> bool { s.len() > 0 && forall|i: int| 0 <= i < s.len() ==> is_digit(#[trigger] s[i]) }
    /// Value of a digit string, unbounded.
    pub open spec fn dec(s: Seq<u8>) -> nat
        decreases s.len()
    { if s.len() == 0 { 0 } else { dec(s.drop_last()) * 10 + (s.last() - 0x30u8) as nat } }
    /// What the std integer parsers accept (ASSUMED, documented grammar): `["+"] 1*DIGIT` whose value fits the type.
    pub open spec fn int_from_str(s: Seq<u8>, max: nat) -> Option<nat> {
        let d = if s.len() > 0 && s[0] == 0x2bu8 { s.subrange(1, s.len() as int) } else { s };
        if all_digits(d) && dec(d) <= max { Some(dec(d)) } else { None }
    }

    // ---- the names the units use: each is a DEFINITION over bytes ----
    pub open spec fn sp_split(s: Str, sep: char) -> Seq<Str> { strs_of(split_b(s.b(), sep as u8)) }
    pub open spec fn sp_split_once(s: Str, sep: char) -> Option<(Str, Str)> {
        match first_at(s.b(), 0, sep as u8) { None => None, Some(q) => Some((mk(s.b().subrange(0, q)), mk(s.b().subrange(q + 1, s.b().len() as int)))) }
    }
    pub open spec fn sp_trim_start(s: Str) -> Str { mk(trim_start_b(s.b(), is_ows())) }    // trim_start_matches([' ', '\t'])
    pub open spec fn sp_trim_ows(s: Str) -> Str { mk(trim_b(s.b(), is_ows())) }            // trim_matches([' ', '\t'])
    pub open spec fn sp_trim_end(s: Str) -> Str { mk(trim_end_b(s.b(), is_ows())) }        // trim_end_matches([' ', '\t'])
    pub open spec fn sp_trim(s: Str) -> Str { mk(trim_b(s.b(), is_ws())) }                 // trim() on an ASCII string
    pub open spec fn sp_trim_start_ws(s: Str) -> Str { mk(trim_start_b(s.b(), is_ws())) }  // trim_start()
    pub open spec fn sp_trim_end_ws(s: Str) -> Str { mk(trim_end_b(s.b(), is_ws())) }      // trim_end()
    pub open spec fn sp_find(s: Str, c: char) -> Option<usize> { match first_at(s.b(), 0, c as u8) { Some(q) => Some(q as usize), None => None } }
    pub open spec fn sp_len(s: Str) -> usize { s.b().len() as usize }
    pub open spec fn sp_slice(s: Str, a: usize, b: usize) -> Str { mk(s.b().subrange(a as int, b as int)) }
    pub open spec fn sp_u64(s: Str) -> Option<u64> { match int_from_str(s.b(), u64::MAX as nat) { Some(v) => Some(v as u64), None => None } }
    pub open spec fn sp_u16(s: Str) -> Option<u16> { match int_from_str(s.b(), u16::MAX as nat) { Some(v) => Some(v as u16), None => None } }
    pub open spec fn sp_strip_prefix(s: Str, p: Seq<char>) -> Option<Str> { if starts_with_b(s.b(), lit(p)) { Some(mk(s.b().subrange(p.len() as int, s.b().len() as int))) } else { None } }
    pub open spec fn sp_is(s: Str, l: Seq<char>) -> bool { s.b() =~= lit(l) }
    pub open spec fn sp_is_nocase(s: Str, l: Seq<char>) -> bool { eq_nocase_b(s.b(), lit(l)) }
    pub open spec fn sp_starts_with(s: Str, l: Seq<char>) -> bool { starts_with_b(s.b(), lit(l)) }
    pub open spec fn sp_ends_with(s: Str, l: Seq<char>) -> bool { ends_with_b(s.b(), lit(l)) }
    pub open spec fn sp_char_boundary(s: Str, i: usize) -> bool { boundary(s.b(), i as int) }

    /// `str::split(sep)` as an iterator over its element sequence.
    pub struct Split { pub rest: Ghost<Seq<Str>> }
    impl Split {
        #[verifier::external_body]
        pub fn next(&mut self) -> (r: Option<Str>)
            ensures old(self).rest@.len() == 0 ==> r.is_none() && final(self).rest@ == old(self).rest@,
                    old(self).rest@.len() > 0 ==> r == Some(old(self).rest@[0]) && final(self).rest@ == old(self).rest@.subrange(1, old(self).rest@.len() as int)
        { unimplemented!() }
    }
    impl Str {
        #[verifier::external_body] pub fn split(&self, sep: char) -> (r: Split) requires (sep as u32) < 0x80 ensures r.rest@ == sp_split(*self, sep) { unimplemented!() }
        #[verifier::external_body] pub fn split_once(&self, sep: char) -> (r: Option<(Str, Str)>) requires (sep as u32) < 0x80 ensures r == sp_split_once(*self, sep) { unimplemented!() }
        #[verifier::external_body] pub fn trim_start_matches(&self, pat: [char; 2]) -> (r: Str) requires pat[0] == ' ', pat[1] == '\t' ensures r == sp_trim_start(*self) { unimplemented!() }
        #[verifier::external_body] pub fn trim_end_matches(&self, pat: [char; 2]) -> (r: Str) requires pat[0] == ' ', pat[1] == '\t' ensures r == sp_trim_end(*self) { unimplemented!() }
        #[verifier::external_body] pub fn trim_matches(&self, pat: [char; 2]) -> (r: Str) requires pat[0] == ' ', pat[1] == '\t' ensures r == sp_trim_ows(*self) { unimplemented!() }
        #[verifier::external_body] pub fn trim(&self) -> (r: Str) requires is_ascii(self.b()) ensures r == sp_trim(*self) { unimplemented!() }
        #[verifier::external_body] pub fn trim_start(&self) -> (r: Str) requires is_ascii(self.b()) ensures r == sp_trim_start_ws(*self) { unimplemented!() }
        #[verifier::external_body] pub fn trim_end(&self) -> (r: Str) requires is_ascii(self.b()) ensures r == sp_trim_end_ws(*self) { unimplemented!() }
        #[verifier::external_body] pub fn find(&self, c: char) -> (r: Option<usize>) requires (c as u32) < 0x80 ensures r == sp_find(*self, c), r matches Some(h) ==> h < sp_len(*self) { unimplemented!() }
        #[verifier::external_body] pub fn len(&self) -> (r: usize) ensures r == sp_len(*self), r == self.b().len() { unimplemented!() }
        #[verifier::external_body] pub fn as_bytes(&self) -> (r: &[u8]) ensures r@ == self.b() { unimplemented!() }
        /// `&s[a..b]` (rule R19): the slicing panic conditions (order, length, char boundaries) are preconditions.
        #[verifier::external_body] pub fn slice(&self, a: usize, b: usize) -> (r: Str) requires a <= b <= sp_len(*self), boundary(self.b(), a as int), boundary(self.b(), b as int) ensures r == sp_slice(*self, a, b) { unimplemented!() }
        /// `split_at(mid)` panics unless `mid` is a char boundary within the string: precondition.
        #[verifier::external_body] pub fn split_at(&self, mid: usize) -> (r: (Str, Str)) requires mid <= sp_len(*self), sp_char_boundary(*self, mid) ensures r.0 == sp_slice(*self, 0, mid), r.1 == sp_slice(*self, mid, sp_len(*self)) { unimplemented!() }
        #[verifier::external_body] pub fn eq_ignore_ascii_case(&self, l: &str) -> (r: bool) ensures r == sp_is_nocase(*self, l@) { unimplemented!() }
        #[verifier::external_body] pub fn starts_with(&self, l: &str) -> (r: bool) ensures r == sp_starts_with(*self, l@) { unimplemented!() }
        #[verifier::external_body] pub fn ends_with(&self, l: &str) -> (r: bool) ensures r == sp_ends_with(*self, l@) { unimplemented!() }
        #[verifier::external_body] pub fn is_empty(&self) -> (r: bool) ensures r == (sp_len(*self) == 0) { unimplemented!() }
        #[verifier::external_body] pub fn strip_prefix(&self, p: &str) -> (r: Option<Str>) ensures r == sp_strip_prefix(*self, p@) { unimplemented!() }
        #[verifier::external_body] pub fn is(&self, l: &str) -> (r: bool) ensures r == sp_is(*self, l@) { unimplemented!() }
    }
    /// `s == "literal"` (PartialEq<&str> for str): its std meaning, named `sp_is`.
    impl vstd::std_specs::cmp::PartialEqSpecImpl<&'static str> for Str {
        open spec fn obeys_eq_spec() -> bool { true }
        open spec fn eq_spec(&self, o: &&'static str) -> bool { sp_is(*self, (*o)@) }
    }
    impl PartialEq<&'static str> for Str {
        #[verifier::external_body]
        fn eq(&self, o: &&'static str) -> (r: bool) { unimplemented!() }
    }
    pub struct ParseIntError;
    /// `u64::from_str` / `u16::from_str` (rule R20).
    #[verifier::external_body] pub fn u64_from_str(s: Str) -> (r: Result<u64, ParseIntError>) ensures r.is_ok() == sp_u64(s).is_some(), r matches Ok(v) ==> v == sp_u64(s).unwrap() { unimplemented!() }
    #[verifier::external_body] pub fn u16_from_str(s: Str) -> (r: Result<u16, ParseIntError>) ensures r.is_ok() == sp_u16(s).is_some(), r matches Ok(v) ==> v == sp_u16(s).unwrap() { unimplemented!() }
    pub assume_specification [u8::is_ascii_digit] (c: &u8) -> (r: bool) ensures r == is_digit(*c);
    /// `s.iter().all(u8::is_ascii_digit)` (rule R46): verified definitional implementation.
    pub fn slice_all_ascii_digits(s: &[u8]) -> (r: bool)
        ensures r == (forall|i: int| 0 <= i < s@.len() ==> is_digit(#[trigger] s@[i])),
    {
        let mut i: usize = 0;
        while i < s.len()
            invariant i <= s.len(), forall|j: int| 0 <= j < i ==> is_digit(#[trigger] s@[j]),
            decreases s.len() - i,
        {
            if !s[i].is_ascii_digit() { return false; }
            i += 1;
        }
        true
    }
}
