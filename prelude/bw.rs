// ---- prelude/bw.rs: what gzip.rs / lib.rs build on: chunker::Writer/Reader (contracts proved in unit `chunker`), flate2, io ----
pub mod io {
    pub enum ErrorKind { BrokenPipe, Other }
    pub struct Error { pub kind: ErrorKind }
    impl Error { pub fn new(kind: ErrorKind, _msg: &str) -> Error { Error { kind } } }
    pub type Result<T> = std::result::Result<T, Error>;
}
pub mod chunker {
    use vstd::prelude::*;
    use crate::io;
    /// chunker::Writer / Reader as opaque objects; `write_rel` / `flush_rel` / `abort_rel` name what the real methods do
    /// (their meaning - FIFO identity, wake-ups, abort signalling - is proved in unit `chunker`).
    #[verifier::external_body]
    #[verifier::reject_recursive_types(D)]
    #[verifier::reject_recursive_types(E)]
    pub struct Writer<D, E> { _d: std::marker::PhantomData<Box<(D, E)>> }
    #[verifier::external_body]
    #[verifier::reject_recursive_types(D)]
    #[verifier::reject_recursive_types(E)]
    pub struct Reader<D, E> { _d: std::marker::PhantomData<Box<(D, E)>> }
    impl<D, E> Writer<D, E> {
        pub uninterp spec fn chunk_size(&self) -> usize;
        pub uninterp spec fn paired_with(&self, r: &Reader<D, E>) -> bool;
        pub uninterp spec fn write_rel(&self, buf: Seq<u8>, r: io::Result<usize>, after: Self) -> bool;
        pub uninterp spec fn flush_rel(&self, r: io::Result<()>, after: Self) -> bool;
        pub uninterp spec fn abort_rel(&self, after: Self) -> bool;
        /// unit `chunker`: Writer::with_chunk_size (panics unless cap > 0: precondition).
        #[verifier::external_body]
        pub fn with_chunk_size(cap: usize) -> (r: (Self, Reader<D, E>)) requires cap > 0 ensures r.0.chunk_size() == cap, r.0.paired_with(&r.1) { unimplemented!() }
        #[verifier::external_body]
        pub fn abort(&mut self, error: E) ensures old(self).abort_rel(*final(self)) { unimplemented!() }
        #[verifier::external_body]
        pub fn write(&mut self, buf: &[u8]) -> (r: io::Result<usize>) ensures old(self).write_rel(buf@, r, *final(self)) { unimplemented!() }
        #[verifier::external_body]
        pub fn flush(&mut self) -> (r: io::Result<()>) ensures old(self).flush_rel(r, *final(self)) { unimplemented!() }
    }
}
pub mod flate2 {
    use vstd::prelude::*;
    use crate::io;
    pub struct Compression { pub level: u32 }
    impl Compression { pub fn new(level: u32) -> (r: Compression) ensures r.level == level { Compression { level } } }
    /// flate2::write::GzEncoder<W>: an opaque compressor around W.  `write_rel` / `flush_rel` name what the real methods do.
    /// ASSUMED flate2 contract (C09 rests on it; cross-checked natively, bounded): fed `write`s (each accepted in full or
    /// as an honestly counted prefix by W) and `flush`es, then dropped, the encoder has handed W - through W's own
    /// `write` / `flush`, retrying partial writes - exactly one well-formed gzip member of the accepted bytes; after TWO
    /// consecutive successful `flush`es W holds enough to decode everything accepted before them.  (One is not enough
    /// in flate2 1.0.33: `zio::Writer::flush` requests the sync flush before it makes room in its 32 KiB staging buffer,
    /// so after a `write` that left the buffer full the request is lost - found by the native family, defect D13.)
    pub mod write {
        use vstd::prelude::*;
        #[verifier::external_body]
        #[verifier::reject_recursive_types(W)]
        pub struct GzEncoder<W> { _w: std::marker::PhantomData<W> }
        impl<W> GzEncoder<W> {
            pub uninterp spec fn inner(&self) -> W;
            pub uninterp spec fn level(&self) -> u32;
            pub uninterp spec fn write_rel(&self, buf: Seq<u8>, r: crate::io::Result<usize>, after: Self) -> bool;
            pub uninterp spec fn flush_rel(&self, r: crate::io::Result<()>, after: Self) -> bool;
            #[verifier::external_body]
            pub fn get_mut(&mut self) -> (r: &mut W) ensures *r == old(self).inner(), final(self).inner() == *final(r), final(self).level() == old(self).level() { unimplemented!() }
            #[verifier::external_body]
            pub fn write(&mut self, buf: &[u8]) -> (r: crate::io::Result<usize>) ensures final(self).level() == old(self).level(), old(self).write_rel(buf@, r, *final(self)) { unimplemented!() }
            #[verifier::external_body]
            pub fn flush(&mut self) -> (r: crate::io::Result<()>) ensures final(self).level() == old(self).level(), old(self).flush_rel(r, *final(self)) { unimplemented!() }
        }
    }
    pub struct GzBuilder;
    impl GzBuilder {
        pub fn new() -> GzBuilder { GzBuilder }
        #[verifier::external_body]
        pub fn write<W>(self, w: W, lvl: Compression) -> (r: write::GzEncoder<W>) ensures r.inner() == w, r.level() == lvl.level { unimplemented!() }
    }
}
