// ---- prelude/glue.rs: the crate-internal types serve_inner builds on, as contracts (each proved in its own unit) ----
macro_rules! unsafe_fmt_ascii_val {
    ($max_len:expr, $fmt:literal, $a:expr) => { crate::http::fmt_val1($max_len, $fmt, $a) };
    ($max_len:expr, $fmt:literal, $a:expr, $b:expr, $c:expr) => { crate::http::fmt_val3($max_len, $fmt, $a, $b, $c) };
}
macro_rules! write {
    ($dst:expr, $fmt:literal, $a:expr, $b:expr, $c:expr) => { crate::fmtw::write_fmt3($dst, $fmt, $a, $b, $c) };
}
