// ---- prelude/chunk.rs: assumed contracts used by src/chunker.rs (std collections, Vec capacity, Waker, io::Error, SizeHint) ----
pub mod pre {
    use vstd::prelude::*;
    use std::collections::VecDeque;
    use vstd::std_specs::convert::*;

    pub uninterp spec fn cap_of<T, A: std::alloc::Allocator>(v: &Vec<T, A>) -> nat;
    pub broadcast axiom fn dflt_vec_cap() ensures cap_of(&(#[trigger] crate::ax::dflt::<Vec<u8>>())) == 0;
    pub broadcast axiom fn dflt_deque() ensures (#[trigger] crate::ax::dflt::<VecDeque<Vec<u8>>>())@ == Seq::<Vec<u8>>::empty();

    pub assume_specification<T, A: std::alloc::Allocator>[ VecDeque::<T, A>::is_empty ](q: &VecDeque<T, A>) -> (r: bool)
        ensures r == (q@.len() == 0);
    /// (not used by the pinned code: a partial contract so that a change that starts peeking at the queue stays analysable)
    pub assume_specification<T, A: std::alloc::Allocator>[ VecDeque::<T, A>::front ](q: &VecDeque<T, A>) -> (r: Option<&T>)
        ensures q@.len() == 0 ==> r is None, q@.len() > 0 ==> r == Some(&q@[0]);
    pub assume_specification<T, A: std::alloc::Allocator>[ Vec::<T, A>::capacity ](v: &Vec<T, A>) -> (r: usize)
        ensures r == cap_of(v), r >= v@.len();
    pub assume_specification<T, A: std::alloc::Allocator>[ Vec::<T, A>::reserve_exact ](v: &mut Vec<T, A>, n: usize)
        ensures final(v)@ == old(v)@, cap_of(final(v)) >= old(v)@.len() + n;
    /// Vec::extend_from_slice plus the capacity fact the chunk-size logic relies on: no reallocation while
    /// len + n <= capacity (rule R18 routes the call here because vstd's own specification is silent on capacity).
    #[verifier::external_body]
    pub fn vec_extend_from_slice(v: &mut Vec<u8>, s: &[u8])
        ensures final(v)@ == old(v)@ + s@, old(v)@.len() + s@.len() <= cap_of(old(v)) ==> cap_of(final(v)) == cap_of(old(v))
    { v.extend_from_slice(s) }
    /// Vec::new() does not allocate: capacity 0 (rule R18 routes `buf: Vec::new()` here).
    #[verifier::external_body]
    pub fn vec_new_u8() -> (v: Vec<u8>) ensures v@ == Seq::<u8>::empty(), cap_of(&v) == 0 { Vec::new() }

    /// std::task::Waker / Context: a waker is identified by the task it wakes; `wake` appends the waker's id to a ghost log and a fingerprint of the shared state at that moment to a second one (rule R6).
    pub struct Waker { pub id: u64 }
    impl Waker {
        #[verifier::external_body]
        pub fn will_wake(&self, o: &Waker) -> (r: bool) ensures r ==> self.id == o.id { unimplemented!() }
        pub fn clone_from(&mut self, o: &Waker) ensures final(self).id == o.id { self.id = o.id; }
        pub fn clone(&self) -> (r: Waker) ensures r.id == self.id { Waker { id: self.id } }
        #[verifier::external_body]
        pub fn wake(self, log: &mut Ghost<Seq<u64>>, seen: &mut Ghost<Seq<int>>, at: Ghost<int>)
            ensures final(log)@ == old(log)@.push(self.id), final(seen)@ == old(seen)@.push(at@) { unimplemented!() }
    }
    pub struct Context { pub w: Waker }
    impl Context { pub fn waker(&self) -> (r: &Waker) ensures r.id == self.w.id { &self.w } }

    /// std::io::{Error, ErrorKind, Result}
    pub mod io {
        pub enum ErrorKind { BrokenPipe, Other }
        pub struct Error { pub kind: ErrorKind }
        impl Error { pub fn new(kind: ErrorKind, _msg: &str) -> Error { Error { kind } } }
        pub type Result<T> = std::result::Result<T, Error>;
    }

    /// http_body::SizeHint with the run-time assertions of set_lower / set_upper as preconditions.
    pub struct SizeHint { pub lower: u64, pub upper: Option<u64> }
    impl SizeHint {
        pub fn lower(&self) -> (r: u64) ensures r == self.lower { self.lower }
        pub fn upper(&self) -> (r: Option<u64>) ensures r == self.upper { self.upper }
        pub fn default() -> (r: SizeHint) ensures r.lower == 0, r.upper.is_none() { SizeHint { lower: 0, upper: None } }
        pub fn set_lower(&mut self, v: u64)
            requires old(self).upper matches Some(u) ==> v <= u,
            ensures final(self).lower == v, final(self).upper == old(self).upper { self.lower = v; }
        pub fn set_upper(&mut self, v: u64)
            requires v >= old(self).lower,
            ensures final(self).upper == Some(v), final(self).lower == old(self).lower { self.upper = Some(v); }
    }

    /// `D: From<Vec<u8>>`: assumed to preserve the bytes (the chunk type handed to hyper).
    pub trait ChunkData: From<Vec<u8>> { spec fn bytes(&self) -> Seq<u8>; }
    pub broadcast axiom fn chunk_from_vec<D: ChunkData>(v: Vec<u8>)
        ensures (#[trigger] <D as FromSpec<Vec<u8>>>::from_spec(v)).bytes() == v@;
    pub broadcast axiom fn chunk_from_vec_obeys<D: ChunkData>()
        ensures #[trigger] <D as FromSpec<Vec<u8>>>::obeys_from_spec();
    pub broadcast group chunk_axioms { dflt_vec_cap, dflt_deque, chunk_from_vec, chunk_from_vec_obeys }
}
