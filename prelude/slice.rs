// ---- prelude/slice.rs: definitional implementations of the core::slice helpers etag.rs uses (VERIFIED, not assumed) ----
pub mod sl {
    use vstd::prelude::*;
    use crate::etag_spec::*;
    /// A slice never holds more than isize::MAX bytes (std guarantee).
    pub broadcast axiom fn slice_len_bound(s: &[u8]) ensures #[trigger] s@.len() <= 0x7fff_ffff_ffff_ffff;
    /// `<[u8]>::strip_prefix(p)` (rule R30): Some(rest) iff the slice starts with p.
    pub fn slice_strip_prefix<'a>(a: &'a [u8], p: &[u8]) -> (r: Option<&'a [u8]>)
        ensures starts_with_s(a@, p@) ==> (r matches Some(x) && x@ == a@.subrange(p@.len() as int, a@.len() as int)),
                !starts_with_s(a@, p@) ==> r.is_none(),
    {
        if a.len() < p.len() { return None; }
        let mut i: usize = 0;
        while i < p.len()
            invariant i <= p.len(), p.len() <= a.len(), forall|j: int| 0 <= j < i ==> a@[j] == p@[j],
            decreases p.len() - i,
        {
            if a[i] != p[i] {
                proof { assert(a@.subrange(0, p@.len() as int)[i as int] == a@[i as int]); }
                return None;
            }
            i += 1;
        }
        proof { assert(a@.subrange(0, p@.len() as int) =~= p@); }
        Some(slice_from(a, p.len()))
    }
    /// `<[u8]>::eq_ignore_ascii_case` (ASSUMED std meaning; not used by the pinned code - a partial contract so that a change
    /// that starts using it is judged against the property instead of being unanalysable).
    pub open spec fn lower_b(c: u8) -> u8 { if 0x41u8 <= c && c <= 0x5au8 { (c + 0x20u8) as u8 } else { c } }
    pub assume_specification [<[u8]>::eq_ignore_ascii_case] (a: &[u8], b: &[u8]) -> (r: bool)
        ensures r == (a@.len() == b@.len() && forall|i: int| 0 <= i < a@.len() ==> lower_b(#[trigger] a@[i]) == lower_b(b@[i]));
    /// `&s[k..]`
    pub fn slice_from<'a>(s: &'a [u8], k: usize) -> (r: &'a [u8])
        requires k <= s@.len(),
        ensures r@ == s@.subrange(k as int, s@.len() as int),
    { vstd::slice::slice_subrange(s, k, s.len()) }
    /// `s.iter().position(|&b| b == c)` (rule R26): first index holding c.
    pub fn slice_position(s: &[u8], c: u8) -> (r: Option<usize>)
        ensures r == (match first_at(s@, 0, c) { Some(q) => Some(q as usize), None => None }),
    {
        let mut i: usize = 0;
        while i < s.len()
            invariant i <= s.len(), first_at(s@, 0, c) == first_at(s@, i as int, c),
            decreases s.len() - i,
        {
            if s[i] == c { return Some(i); }
            i += 1;
        }
        None
    }
    /// `s.split_at(mid)` (rule R31): panics if mid > len - so that is a precondition.
    pub fn slice_split_at<'a>(s: &'a [u8], mid: usize) -> (r: (&'a [u8], &'a [u8]))
        requires mid <= s@.len(),
        ensures r.0@ == s@.subrange(0, mid as int), r.1@ == s@.subrange(mid as int, s@.len() as int),
    { (vstd::slice::slice_subrange(s, 0, mid), vstd::slice::slice_subrange(s, mid, s.len())) }
}
