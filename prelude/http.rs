// ---- prelude/http.rs: specification-only stand-in for the `http` / `httpdate` / `std::time` APIs used by serving.rs ----
// No http-serve logic here.  A response is its ghost view `RespView { status, hdrs }`; a header value is its ghost
// meaning `HV` (a static literal, a formatted literal + integer arguments, an HTTP date, or opaque request bytes).
pub mod stub {
    use vstd::prelude::*;
    use vstd::std_specs::cmp::*;
    use std::cmp::Ordering;
    /// std::time::SystemTime as (seconds since the epoch, sub-second nanoseconds).
    #[derive(Clone, Copy)]
    pub struct SystemTime { pub secs: i64, pub nanos: u32 }
    pub uninterp spec fn clock_now() -> SystemTime;
    impl SystemTime {
        pub const UNIX_EPOCH: SystemTime = SystemTime { secs: 0, nanos: 0 };
        /// The clock is a valid time between the epoch and year 9999 (assumed).
        #[verifier::external_body]
        pub fn now() -> (r: SystemTime) ensures r == clock_now(), 0 <= r.secs < 253402300800, r.nanos < 1_000_000_000 { unimplemented!() }
        /// `duration_since(UNIX_EPOCH)`: Err for times before the epoch (secs < 0 in this model).
        #[verifier::external_body]
        pub fn duration_since(&self, earlier: SystemTime) -> (r: Result<Duration, SystemTimeError>)
            requires earlier.secs == 0 && earlier.nanos == 0, self.nanos < 1_000_000_000,
            ensures self.secs >= 0 ==> (r matches Ok(d) && d.secs == self.secs && d.nanos == self.nanos),
                    self.secs < 0 ==> (r matches Err(e) && e.d == before_epoch(*self)),
        { unimplemented!() }
    }
    /// How far a pre-epoch time (secs < 0, timespec style: secs + nanos/1e9) lies before the epoch.
    pub open spec fn before_epoch(t: SystemTime) -> Duration {
        if t.nanos == 0 { Duration { secs: (-t.secs) as u64, nanos: 0 } } else { Duration { secs: (-t.secs - 1) as u64, nanos: (1_000_000_000 - t.nanos) as u32 } }
    }
    /// std::time::SystemTimeError: carries the (positive) distance between the two times.
    #[derive(Debug)]
    pub struct SystemTimeError { pub d: Duration }
    impl SystemTimeError { pub fn duration(&self) -> (r: Duration) ensures r == self.d { self.d } }
    /// std::time::Duration
    #[derive(Clone, Copy, Debug)]
    pub struct Duration { pub secs: u64, pub nanos: u32 }
    impl Duration {
        pub fn subsec_nanos(&self) -> (r: u32) ensures r == self.nanos { self.nanos }
        pub fn as_secs(&self) -> (r: u64) ensures r == self.secs { self.secs }
        pub fn from_nanos(n: u64) -> (r: Duration) ensures r.secs == n / 1_000_000_000, r.nanos == n % 1_000_000_000
        { Duration { secs: n / 1_000_000_000, nanos: (n % 1_000_000_000) as u32 } }
    }
    /// `SystemTime - Duration` (assumed std meaning; panics on underflow: precondition).
    impl vstd::std_specs::ops::SubSpecImpl<Duration> for SystemTime {
        open spec fn obeys_sub_spec() -> bool { true }
        open spec fn sub_req(self, d: Duration) -> bool { d.secs == 0 && d.nanos <= self.nanos }
        open spec fn sub_spec(self, d: Duration) -> SystemTime { SystemTime { secs: self.secs, nanos: (self.nanos - d.nanos) as u32 } }
    }
    impl std::ops::Sub<Duration> for SystemTime {
        type Output = SystemTime;
        fn sub(self, d: Duration) -> (r: SystemTime) { SystemTime { secs: self.secs, nanos: self.nanos - d.nanos } }
    }
    pub open spec fn st_le(a: SystemTime, b: SystemTime) -> bool { a.secs < b.secs || (a.secs == b.secs && a.nanos <= b.nanos) }
    pub open spec fn st_min_s(a: SystemTime, b: SystemTime) -> SystemTime { if st_le(a, b) { a } else { b } }
    pub open spec fn st_cmp(a: SystemTime, b: SystemTime) -> Ordering {
        if a.secs < b.secs || (a.secs == b.secs && a.nanos < b.nanos) { Ordering::Less } else if a.secs == b.secs && a.nanos == b.nanos { Ordering::Equal } else { Ordering::Greater }
    }
    /// SystemTime is totally ordered by (secs, nanos): `*m > d`, `*m <= d`, `std::cmp::min(m, d)` keep their std meaning.
    impl PartialEqSpecImpl for SystemTime {
        open spec fn obeys_eq_spec() -> bool { true }
        open spec fn eq_spec(&self, o: &SystemTime) -> bool { self.secs == o.secs && self.nanos == o.nanos }
    }
    impl PartialEq for SystemTime { fn eq(&self, o: &SystemTime) -> (r: bool) { self.secs == o.secs && self.nanos == o.nanos } }
    impl Eq for SystemTime {}
    impl PartialOrdSpecImpl for SystemTime {
        open spec fn obeys_partial_cmp_spec() -> bool { true }
        open spec fn partial_cmp_spec(&self, o: &SystemTime) -> Option<Ordering> { Some(st_cmp(*self, *o)) }
    }
    impl PartialOrd for SystemTime {
        fn partial_cmp(&self, o: &SystemTime) -> (r: Option<Ordering>) {
            if self.secs < o.secs || (self.secs == o.secs && self.nanos < o.nanos) { Some(Ordering::Less) } else if self.secs == o.secs && self.nanos == o.nanos { Some(Ordering::Equal) } else { Some(Ordering::Greater) }
        }
    }
    impl OrdSpecImpl for SystemTime {
        open spec fn obeys_cmp_spec() -> bool { true }
        open spec fn cmp_spec(&self, o: &SystemTime) -> Ordering { st_cmp(*self, *o) }
    }
    impl Ord for SystemTime {
        fn cmp(&self, o: &SystemTime) -> (r: Ordering) {
            if self.secs < o.secs || (self.secs == o.secs && self.nanos < o.nanos) { Ordering::Less } else if self.secs == o.secs && self.nanos == o.nanos { Ordering::Equal } else { Ordering::Greater }
        }
    }
    /// httpdate: `fmt_http_date(t)` renders t truncated to the second and PANICS for times before the epoch or from
    /// year 9999 on (`HttpDate::from`) - a precondition here; `parse_http_date` yields whole seconds.
    pub struct HDate { pub t: Ghost<SystemTime> }
    #[verifier::external_body]
    pub fn fmt_http_date(t: SystemTime) -> (r: HDate)
        requires 0 <= t.secs < 253402300800,
        ensures r.t@ == t { unimplemented!() }
    pub struct DateError;
    pub uninterp spec fn sp_http_date(s: crate::strs::Str) -> Option<SystemTime>;
    pub broadcast axiom fn http_date_whole_second(s: crate::strs::Str)
        ensures (#[trigger] sp_http_date(s)) matches Some(t) ==> t.nanos == 0 && 0 <= t.secs < 253402300800;
    #[verifier::external_body]
    pub fn parse_http_date(s: crate::strs::Str) -> (r: Result<SystemTime, DateError>)
        ensures r.is_ok() == sp_http_date(s).is_some(), r matches Ok(t) ==> Some(t) == sp_http_date(s)
    { unimplemented!() }
}

pub mod http {
    use vstd::prelude::*;
    #[derive(Clone, Copy)]
    pub struct Method { pub k: u8 }
    impl vstd::std_specs::cmp::PartialEqSpecImpl for Method {
        open spec fn obeys_eq_spec() -> bool { true }
        open spec fn eq_spec(&self, o: &Method) -> bool { self.k == o.k }
    }
    impl PartialEq for Method { fn eq(&self, o: &Method) -> (r: bool) ensures r == (self.k == o.k) { self.k == o.k } }
    impl<'a> vstd::std_specs::cmp::PartialEqSpecImpl<Method> for &'a Method {
        open spec fn obeys_eq_spec() -> bool { true }
        open spec fn eq_spec(&self, o: &Method) -> bool { self.k == o.k }
    }
    impl<'a> PartialEq<Method> for &'a Method { fn eq(&self, o: &Method) -> (r: bool) ensures r == (self.k == o.k) { self.k == o.k } }
    impl Method { pub const GET: Method = Method { k: 0 }; pub const HEAD: Method = Method { k: 1 }; }
    pub mod method { pub use super::Method; }
    #[derive(Clone, Copy)]
    pub struct StatusCode { pub c: u16 }
    impl StatusCode {
        pub const METHOD_NOT_ALLOWED: StatusCode = StatusCode { c: 405 };
        pub const BAD_REQUEST: StatusCode = StatusCode { c: 400 };
        pub const PRECONDITION_FAILED: StatusCode = StatusCode { c: 412 };
        pub const NOT_MODIFIED: StatusCode = StatusCode { c: 304 };
        pub const PARTIAL_CONTENT: StatusCode = StatusCode { c: 206 };
        pub const PAYLOAD_TOO_LARGE: StatusCode = StatusCode { c: 413 };
        pub const RANGE_NOT_SATISFIABLE: StatusCode = StatusCode { c: 416 };
    }
    #[derive(Clone, Copy)]
    #[allow(non_camel_case_types)]
    pub enum HeaderName { ALLOW, ACCEPT_RANGES, DATE, LAST_MODIFIED, ETAG, CONTENT_RANGE, CONTENT_LENGTH, CONTENT_TYPE, RANGE, IF_RANGE, IF_MATCH, IF_NONE_MATCH, IF_MODIFIED_SINCE, IF_UNMODIFIED_SINCE, ACCEPT_ENCODING, VARY, CONTENT_ENCODING }
    pub mod header {
        pub use super::HeaderName::*;
        pub use super::HeaderValue;
        pub use super::HeaderMap;
    }

    /// Ghost meaning of a header value.
    pub enum HV { Static(Seq<char>), Fmt(Seq<char>, Seq<u64>), Date(crate::stub::SystemTime), Opaque(Seq<u8>) }
    pub struct HeaderValue { pub v: Ghost<HV>, pub bytes: Vec<u8> }
    pub struct ToStrError;
    /// `HeaderValue::to_str`: Some(the same bytes as a string) iff every byte is visible ASCII or HTAB (assumed contract on http).
    pub open spec fn sp_to_str(b: Seq<u8>) -> Option<crate::strs::Str> { if crate::strs::is_visible(b) { Some(crate::strs::mk(b)) } else { None } }
    impl HeaderValue {
        /// Request-side values are opaque bytes.
        pub open spec fn wf(&self) -> bool { self.v@ == HV::Opaque(self.bytes@) }
        #[verifier::external_body]
        pub fn from_static(s: &'static str) -> (r: HeaderValue) ensures r.v@ == HV::Static(s@) { unimplemented!() }
        pub fn as_bytes(&self) -> (r: &[u8]) ensures r@ == self.bytes@ { self.bytes.as_slice() }
        #[verifier::external_body]
        pub fn to_str(&self) -> (r: Result<crate::strs::Str, ToStrError>)
            ensures r.is_ok() == sp_to_str(self.bytes@).is_some(), r matches Ok(s) ==> Some(s) == sp_to_str(self.bytes@)
        { unimplemented!() }
    }
    pub trait IntoHV { spec fn hv(&self) -> HV; }
    impl IntoHV for HeaderValue { open spec fn hv(&self) -> HV { self.v@ } }
    impl IntoHV for crate::stub::HDate { open spec fn hv(&self) -> HV { HV::Date(self.t@) } }

    /// `unsafe_fmt_ascii_val!(max_len, fmt, args..)`: the value's meaning is the format literal plus its integer
    /// arguments.  `max_len` is only the initial capacity of a `BytesMut`, which grows on demand (bytes 1.x:
    /// `fmt::Write for BytesMut` fails only when `usize::MAX - len` is exceeded), so a small value costs a reallocation
    /// and nothing else: no obligation is attached to it.  (An earlier version of this model required the capacity to
    /// cover the rendered text; a mutation run showed that to be a false assumption - capacity 19 renders 2^64-1 fine.)
    #[verifier::external_body]
    pub fn fmt_val1(max_len: usize, f: &'static str, a: u64) -> (r: HeaderValue)
        ensures r.v@ == HV::Fmt(f@, seq![a]) { unimplemented!() }
    #[verifier::external_body]
    pub fn fmt_val3(max_len: usize, f: &'static str, a: u64, b: u64, c: u64) -> (r: HeaderValue)
        ensures r.v@ == HV::Fmt(f@, seq![a, b, c]) { unimplemented!() }

    pub struct RespView { pub status: int, pub hdrs: Seq<(HeaderName, HV)> }
    pub mod response {
        use vstd::prelude::*;
        use super::*;
        pub struct Builder { pub v: Ghost<RespView> }
        impl Builder {
            pub fn status(self, s: StatusCode) -> (r: Builder) ensures r.v@ == (RespView { status: s.c as int, ..self.v@ }) { Builder { v: Ghost(RespView { status: s.c as int, ..self.v@ }) } }
            pub fn header<V: IntoHV>(self, k: HeaderName, val: V) -> (r: Builder) ensures r.v@ == (RespView { hdrs: self.v@.hdrs.push((k, val.hv())), ..self.v@ }) { Builder { v: Ghost(RespView { hdrs: self.v@.hdrs.push((k, val.hv())), ..self.v@ }) } }
            pub fn body<B>(self, b: B) -> (r: Result<Response<B>, HttpError>) ensures r matches Ok(x) && x.v@ == self.v@ && x.body == b && !x.extra.entity_hdrs@ && x.extra.appended@.len() == 0 { Ok(Response { v: self.v, body: b, extra: HeaderMap::new() }) }
        }
    }
    /// http::Request as far as `serve` looks at it.
    pub struct Request { pub method: Method, pub headers: HeaderMap }
    impl Request {
        pub fn method(&self) -> (r: &Method) ensures r == &self.method { &self.method }
        pub fn headers(&self) -> (r: &HeaderMap) ensures r == &self.headers { &self.headers }
    }
    pub mod request {
        /// http::request::Parts as far as `streaming_body` looks at it.
        pub struct Parts { pub method: super::Method, pub headers: super::HeaderMap }
    }
    /// `extra` stands for the headers added after the builder stage through `headers_mut()`.
    pub struct Response<B> { pub v: Ghost<RespView>, pub body: B, pub extra: HeaderMap }
    #[derive(Debug)]
    pub struct HttpError;
    impl Response<()> {
        pub fn builder() -> (r: response::Builder) ensures r.v@ == (RespView { status: 200, hdrs: Seq::empty() }) { response::Builder { v: Ghost(RespView { status: 200, hdrs: Seq::empty() }) } }
    }
    impl<B> Response<B> {
        pub fn new(b: B) -> (r: Response<B>) ensures r.v@ == (RespView { status: 200, hdrs: Seq::empty() }), r.body == b, !r.extra.entity_hdrs@, r.extra.appended@.len() == 0
        { Response { v: Ghost(RespView { status: 200, hdrs: Seq::empty() }), body: b, extra: HeaderMap::new() } }
        pub fn headers_mut(&mut self) -> (r: &mut HeaderMap)
            ensures *r == old(self).extra, final(self).v == old(self).v, final(self).body == old(self).body, final(self).extra == *final(r)
        { &mut self.extra }
    }
    /// Request side: ghost map name -> value (first value; repeated header lines are outside this view).
    /// Response side: `appended` = values appended in order, `entity_hdrs` = "Entity::add_headers was applied".
    pub struct HeaderMap { pub m: Ghost<Map<HeaderName, HeaderValue>>, pub entity_hdrs: Ghost<bool>, pub appended: Ghost<Seq<(HeaderName, HV)>>, pub entries: Ghost<Seq<(Seq<u8>, Seq<u8>)>>, pub inserted: Ghost<Map<HeaderName, HV>> }
    /// A header name as yielded by iteration (`k.as_str().as_bytes()`).
    pub struct EntName { pub bytes: Vec<u8> }
    impl EntName {
        pub fn as_str(&self) -> (r: &EntName) ensures r == self { self }
        pub fn as_bytes(&self) -> (r: &[u8]) ensures r@ == self.bytes@ { self.bytes.as_slice() }
    }
    /// `(&HeaderMap).into_iter()` / `.iter()`: yields the entries in order.
    pub struct HdrIter<'a> { pub rest: Ghost<Seq<(Seq<u8>, Seq<u8>)>>, pub _p: std::marker::PhantomData<&'a HeaderMap> }
    impl<'a> HdrIter<'a> {
        #[verifier::external_body]
        pub fn next(&mut self) -> (r: Option<(&'a EntName, &'a HeaderValue)>)
            ensures old(self).rest@.len() == 0 ==> r.is_none() && final(self).rest@ == old(self).rest@,
                    old(self).rest@.len() > 0 ==> (r matches Some(kv) && kv.0.bytes@ == old(self).rest@[0].0 && kv.1.bytes@ == old(self).rest@[0].1) && final(self).rest@ == old(self).rest@.subrange(1, old(self).rest@.len() as int)
        { unimplemented!() }
    }
    /// The append log with every entry of one name removed (what `HeaderMap::remove` leaves).
    pub open spec fn without(s: Seq<(HeaderName, HV)>, k: HeaderName) -> Seq<(HeaderName, HV)>
        decreases s.len()
    {
        if s.len() == 0 { s } else if s.last().0 == k { without(s.drop_last(), k) } else { without(s.drop_last(), k).push(s.last()) }
    }
    pub broadcast proof fn lemma_without_push(s: Seq<(HeaderName, HV)>, p: (HeaderName, HV), k: HeaderName)
        ensures #[trigger] without(s.push(p), k) == (if p.0 == k { without(s, k) } else { without(s, k).push(p) })
    { assert(s.push(p).drop_last() =~= s); }
    impl HeaderMap {
        pub fn new() -> (r: HeaderMap) ensures !r.entity_hdrs@, r.m@ == Map::<HeaderName, HeaderValue>::empty(), r.appended@.len() == 0, r.entries@.len() == 0, r.inserted@ == Map::<HeaderName, HV>::empty() { HeaderMap { m: Ghost(Map::empty()), entity_hdrs: Ghost(false), appended: Ghost(Seq::empty()), entries: Ghost(Seq::empty()), inserted: Ghost(Map::empty()) } }
        #[verifier::external_body]
        pub fn iter(&self) -> (r: HdrIter<'_>) ensures r.rest@ == self.entries@ { unimplemented!() }
        #[verifier::external_body]
        pub fn get(&self, k: HeaderName) -> (r: Option<&HeaderValue>)
            ensures r.is_some() == self.m@.dom().contains(k), r matches Some(v) ==> *v == self.m@[k]
        { unimplemented!() }
        /// `insert` replaces the value stored under the name (response side: ghost map `inserted`).
        #[verifier::external_body]
        pub fn insert(&mut self, k: HeaderName, v: HeaderValue) -> (r: Option<HeaderValue>)
            ensures final(self).inserted@ == old(self).inserted@.insert(k, v.v@), final(self).m == old(self).m, final(self).appended == old(self).appended,
                    final(self).entity_hdrs == old(self).entity_hdrs, final(self).entries == old(self).entries
        { unimplemented!() }
        #[verifier::external_body]
        pub fn contains_key(&self, k: HeaderName) -> (r: bool) ensures r == self.m@.dom().contains(k) { unimplemented!() }
        #[verifier::external_body]
        pub fn append(&mut self, k: HeaderName, v: HeaderValue) -> (r: bool)
            ensures final(self).appended@ == old(self).appended@.push((k, v.v@)), final(self).m == old(self).m, final(self).entity_hdrs == old(self).entity_hdrs
        { unimplemented!() }
        /// `remove` drops every value stored under the name (assumed `http` contract, stated on all ghost views).
        #[verifier::external_body]
        pub fn remove(&mut self, k: HeaderName) -> (r: Option<HeaderValue>)
            ensures final(self).appended@ == without(old(self).appended@, k), final(self).inserted@ == old(self).inserted@.remove(k),
                    final(self).m@ == old(self).m@.remove(k), final(self).entity_hdrs == old(self).entity_hdrs,
                    r.is_some() == old(self).m@.dom().contains(k)
        { unimplemented!() }
        pub open spec fn req_wf(&self) -> bool { forall|k: HeaderName| self.m@.dom().contains(k) ==> (#[trigger] self.m@[k]).wf() }
    }
}
