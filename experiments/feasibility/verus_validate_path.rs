use vstd::prelude::*;
verus! {
pub mod memchr {
    use vstd::prelude::*;
    #[verifier::external_body]
    pub fn memchr(n: u8, h: &[u8]) -> (r: Option<usize>)
        ensures match r { Some(i) => i < h@.len() && h@[i as int] == n && forall|j: int| 0 <= j < i ==> h@[j] != n, None => forall|j: int| 0 <= j < h@.len() ==> h@[j] != n }
    { unimplemented!() }
}

fn validate_path(path: &[u8]) -> Result<(), &'static str> {
    if memchr::memchr(0, path).is_some() {
        return Err("path contains NUL byte");
    }
    if path.first() == Some(&b'/') {
        return Err("path is absolute");
    }
    let mut left = path;
    loop {
        let next = memchr::memchr(b'/', left);
        let seg = &left[0..next.unwrap_or(left.len())];
        if seg == b".." {
            return Err("path contains .. segment");
        }
        match next {
            None => break,
            Some(n) => left = &left[n + 1..],
        };
    }
    Ok(())
}
}
fn main() {}
