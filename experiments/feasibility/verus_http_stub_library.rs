use vstd::prelude::*;
use std::ops::Range;

macro_rules! unsafe_fmt_ascii_val {
    ($max_len:expr, $fmt:literal, $a:expr) => { crate::stub::fmt_val1($max_len, $fmt, $a) };
    ($max_len:expr, $fmt:literal, $a:expr, $b:expr, $c:expr) => { crate::stub::fmt_val3($max_len, $fmt, $a, $b, $c) };
}

verus! {

pub mod stub {
    use vstd::prelude::*;
    #[derive(PartialEq, Eq, Clone, Copy)]
    pub struct Method { pub k: u8 }
    impl<'a> PartialEq<Method> for &'a Method { fn eq(&self, o: &Method) -> (r: bool) { self.k == o.k } }
    impl Method { pub const GET: Method = Method { k: 0 }; pub const HEAD: Method = Method { k: 1 }; }
    #[derive(PartialEq, Eq, Clone, Copy)]
    pub struct StatusCode { pub c: u16 }
    impl StatusCode {
        pub const METHOD_NOT_ALLOWED: StatusCode = StatusCode { c: 405 };
        pub const PARTIAL_CONTENT: StatusCode = StatusCode { c: 206 };
    }
    #[derive(PartialEq, Eq, Clone, Copy)]
    pub enum HeaderName { ALLOW, CONTENT_RANGE, CONTENT_LENGTH, RANGE, IF_RANGE }
    pub mod header { pub use super::HeaderName::*; }

    pub enum HV { Static(Seq<char>), Fmt(Seq<char>, Seq<u64>), Opaque(int) }
    pub struct HeaderValue { pub v: Ghost<HV>, pub bytes: Vec<u8> }
    impl HeaderValue {
        #[verifier::external_body]
        pub fn from_static(s: &'static str) -> (r: HeaderValue) ensures r.v@ == HV::Static(s@) { unimplemented!() }
        pub fn as_bytes(&self) -> (r: &[u8]) ensures r@ == self.bytes@ { self.bytes.as_slice() }
    }
    #[verifier::external_body]
    pub fn fmt_val1(max_len: usize, f: &'static str, a: u64) -> (r: HeaderValue)
        ensures r.v@ == HV::Fmt(f@, seq![a]) { unimplemented!() }
    #[verifier::external_body]
    pub fn fmt_val3(max_len: usize, f: &'static str, a: u64, b: u64, c: u64) -> (r: HeaderValue)
        ensures r.v@ == HV::Fmt(f@, seq![a, b, c]) { unimplemented!() }

    pub struct RespView { pub status: int, pub hdrs: Seq<(HeaderName, HV)> }
    pub struct Builder { pub v: Ghost<RespView> }
    pub struct Response<B> { pub v: Ghost<RespView>, pub body: B }
    #[derive(Debug)]
    pub struct HttpError;
    impl Response<()> {
        pub fn builder() -> (r: Builder) ensures r.v@ == (RespView { status: 200, hdrs: Seq::empty() }) { Builder { v: Ghost(RespView { status: 200, hdrs: Seq::empty() }) } }
    }
    impl Builder {
        pub fn status(self, s: StatusCode) -> (r: Builder) ensures r.v@ == (RespView { status: s.c as int, ..self.v@ }) { Builder { v: Ghost(RespView { status: s.c as int, ..self.v@ }) } }
        pub fn header(self, k: HeaderName, val: HeaderValue) -> (r: Builder) ensures r.v@ == (RespView { hdrs: self.v@.hdrs.push((k, val.v@)), ..self.v@ }) { Builder { v: Ghost(RespView { hdrs: self.v@.hdrs.push((k, val.v@)), ..self.v@ }) } }
        pub fn body<B>(self, b: B) -> (r: Result<Response<B>, HttpError>) ensures r matches Ok(x) && x.v@ == self.v@ && x.body == b { Ok(Response { v: self.v, body: b }) }
    }
    pub struct HeaderMap { pub range: Option<HeaderValue>, pub if_range: Option<HeaderValue> }
    impl HeaderMap {
        pub fn get(&self, k: HeaderName) -> (r: Option<&HeaderValue>) { match k { HeaderName::RANGE => self.range.as_ref(), HeaderName::IF_RANGE => self.if_range.as_ref(), _ => None } }
    }
}
use stub::*;

pub enum BodyK { Static(Seq<char>), Empty }
pub struct Body { pub k: Ghost<BodyK> }
impl Body {
    #[verifier::external_body]
    pub fn from(s: &'static str) -> (r: Body) ensures r.k@ == BodyK::Static(s@) { unimplemented!() }
}

const MAX_DECIMAL_U64_BYTES: usize = 20;

fn t(method: &Method, req_hdrs: &HeaderMap, range: &Range<u64>, len: u64) -> (r: Response<Body>)
    requires range.start < range.end,
{
    if method != Method::GET && method != Method::HEAD {
        return Response::builder()
                .status(StatusCode::METHOD_NOT_ALLOWED)
                .header(header::ALLOW, HeaderValue::from_static("get, head"))
                .body(Body::from("This resource only supports GET and HEAD."))
                .unwrap();
    }
    let mut res = Response::builder();
    let mut range_hdr = req_hdrs.get(header::RANGE);
    res = res.header(
        header::CONTENT_RANGE,
        unsafe_fmt_ascii_val!(
            MAX_DECIMAL_U64_BYTES * 3 + "bytes -/".len(),
            "bytes {}-{}/{}",
            range.start,
            range.end - 1,
            len
        ),
    );
    res = res.status(StatusCode::PARTIAL_CONTENT);
    let body = if *method == Method::HEAD { Body::from("") } else { Body::from("x") };
    res.body(body).unwrap()
}

} // verus!
fn main() {}
