use vstd::prelude::*;
verus! {

pub mod stub {
    use vstd::prelude::*;
    // opaque string slices with uninterpreted lexical primitives (assumed contracts on core::str)
    pub struct Str { pub id: int }
    pub uninterp spec fn sp_split(s: Str, sep: char) -> Seq<Str>;
    pub uninterp spec fn sp_split_once(s: Str, sep: char) -> Option<(Str, Str)>;
    pub uninterp spec fn sp_trim(s: Str) -> Str;
    pub uninterp spec fn sp_strip_prefix(s: Str, p: Seq<char>) -> Option<Str>;
    pub uninterp spec fn sp_is(s: Str, lit: Seq<char>) -> bool;
    pub uninterp spec fn sp_qvalue(s: Str) -> Option<u16>;

    pub struct Split { pub rest: Ghost<Seq<Str>>, }
    impl Split {
        #[verifier::external_body]
        pub fn next(&mut self) -> (r: Option<Str>)
            ensures old(self).rest@.len() == 0 ==> r.is_none() && final(self).rest@ == old(self).rest@,
                    old(self).rest@.len() > 0 ==> r == Some(old(self).rest@[0]) && final(self).rest@ == old(self).rest@.subrange(1, old(self).rest@.len() as int)
        { unimplemented!() }
    }
    impl Str {
        #[verifier::external_body]
        pub fn split(&self, sep: char) -> (r: Split) ensures r.rest@ == sp_split(*self, sep) { unimplemented!() }
        #[verifier::external_body]
        pub fn split_once(&self, sep: char) -> (r: Option<(Str, Str)>) ensures r == sp_split_once(*self, sep) { unimplemented!() }
        #[verifier::external_body]
        pub fn trim(&self) -> (r: Str) ensures r == sp_trim(*self) { unimplemented!() }
        #[verifier::external_body]
        pub fn strip_prefix(&self, p: &str) -> (r: Option<Str>) ensures r == sp_strip_prefix(*self, p@) { unimplemented!() }
        #[verifier::external_body]
        pub fn is(&self, lit: &str) -> (r: bool) ensures r == sp_is(*self, lit@) { unimplemented!() }
    }
    #[verifier::external_body]
    pub fn parse_qvalue(s: Str) -> (r: Result<u16, ()>) ensures r.is_ok() == sp_qvalue(s).is_some(), r matches Ok(q) ==> q == sp_qvalue(s).unwrap() && q <= 1000 { unimplemented!() }
}
use stub::*;
pub assume_specification<T>[ Option::<T>::or ](a: Option<T>, b: Option<T>) -> (r: Option<T>)
    ensures r == (if a is Some { a } else { b });

fn should_gzip_core(v: Str) -> bool {
    let (mut gzip_q, mut identity_q, mut star_q) = (None, None, None);
    let mut parts = v.split(',');
    loop {
        let Some(qi) = parts.next() else { break };
        // Parse.
        let coding;
        let quality;
        match qi.split_once(';') {
            None => {
                coding = qi.trim();
                quality = 1000;
            }
            Some((c, q)) => {
                coding = c.trim();
                let Some(q) = q
                    .trim()
                    .strip_prefix("q=")
                    .and_then(|q| parse_qvalue(q).ok())
                else {
                    return false; // unparseable.
                };
                quality = q;
            }
        };

        if coding.is("gzip") {
            gzip_q = Some(quality);
        } else if coding.is("identity") {
            identity_q = Some(quality);
        } else if coding.is("*") {
            star_q = Some(quality);
        }
    }

    let gzip_q = gzip_q.or(star_q).unwrap_or(0);
    let identity_q = identity_q.or(star_q).unwrap_or(1);
    gzip_q > 0 && gzip_q >= identity_q
}

} // verus!
fn main() {}
