use vstd::prelude::*;
verus! {

// --- stub library (same API names as http / httpdate / std::time) ---
#[derive(Clone, Copy)]
pub struct SystemTime { pub secs: u64, pub nanos: u32 }
impl SystemTime {
    pub open spec fn gt_spec(&self, o: &SystemTime) -> bool { self.secs > o.secs || (self.secs == o.secs && self.nanos > o.nanos) }
    pub fn gt(&self, o: &SystemTime) -> (r: bool) ensures r == self.gt_spec(o) { self.secs > o.secs || (self.secs == o.secs && self.nanos > o.nanos) }
    pub fn le(&self, o: &SystemTime) -> (r: bool) ensures r == !self.gt_spec(o) { !self.gt(o) }
}
pub struct HeaderValue { pub b: Vec<u8> }
pub struct ToStrError;
impl HeaderValue {
    #[verifier::external_body]
    pub fn to_str(&self) -> (r: Result<&str, ToStrError>) { unimplemented!() }
}
pub struct HeaderMap { pub ius: Option<HeaderValue>, pub ims: Option<HeaderValue> }
pub enum HName { IF_UNMODIFIED_SINCE, IF_MODIFIED_SINCE }
impl HeaderMap {
    pub fn get(&self, n: HName) -> (r: Option<&HeaderValue>)
        ensures r == (match n { HName::IF_UNMODIFIED_SINCE => self.ius.as_ref(), HName::IF_MODIFIED_SINCE => self.ims.as_ref() })
    { match n { HName::IF_UNMODIFIED_SINCE => self.ius.as_ref(), HName::IF_MODIFIED_SINCE => self.ims.as_ref() } }
}
pub struct DateErr;
pub uninterp spec fn date_of(s: &str) -> Option<SystemTime>;
#[verifier::external_body]
pub fn parse_http_date(s: &str) -> (r: Result<SystemTime, DateErr>)
    ensures r.is_ok() == date_of(s).is_some(), r matches Ok(t) ==> t == date_of(s).unwrap() && t.nanos == 0
{ unimplemented!() }

#[verifier::external_body]
pub fn any_match(etag: &Option<HeaderValue>, req_hdrs: &HeaderMap) -> Result<bool, &'static str> { unimplemented!() }
#[verifier::external_body]
pub fn none_match(etag: &Option<HeaderValue>, req_hdrs: &HeaderMap) -> Option<bool> { unimplemented!() }

fn parse_modified_hdrs(
    etag: &Option<HeaderValue>,
    req_hdrs: &HeaderMap,
    last_modified: Option<SystemTime>,
) -> Result<(bool, bool), &'static str> {
    let precondition_failed = if !any_match(etag, req_hdrs)? {
        true
    } else if let (Some(ref m), Some(since)) =
        (last_modified, req_hdrs.get(HName::IF_UNMODIFIED_SINCE))
    {
        const ERR: &'static str = "Unparseable If-Unmodified-Since";
        (*m).gt(&parse_http_date(since.to_str().map_err(|_e| ERR)?).map_err(|_e| ERR)?)
    } else {
        false
    };

    let not_modified = match none_match(etag, req_hdrs) {
        Some(true) => false,

        Some(false) => true,

        None => {
            if let (Some(ref m), Some(since)) =
                (last_modified, req_hdrs.get(HName::IF_MODIFIED_SINCE))
            {
                const ERR2: &'static str = "Unparseable If-Modified-Since";
                (*m).le(&parse_http_date(since.to_str().map_err(|_e| ERR2)?).map_err(|_e| ERR2)?)
            } else {
                false
            }
        }
    };
    Ok((precondition_failed, not_modified))
}

} // verus!
fn main() {}
