use vstd::prelude::*;
verus! {

pub enum St { Ok { ready: Seq<nat>, wd: bool }, Err, Fused }
pub struct Sh { pub st: St, pub waker: Option<u64> }
pub struct Sys { pub sh: Sh, pub parked: Option<u64>, pub pend: Seq<u64> }

pub open spec fn avail(sh: Sh) -> bool {
    match sh.st { St::Ok { ready, wd } => ready.len() > 0 || wd, St::Err => true, St::Fused => true }
}

// relation exported by the contract of Reader::poll_next (pending = result was Poll::Pending)
pub open spec fn poll_rel(a: Sh, w: u64, b: Sh, pending: bool) -> bool {
    if pending { !avail(a) && b.st == a.st && b.waker == Some(w) }
    else { avail(a) }   // (data/terminal results: what happens to b is C08's business, irrelevant here)
}
// relation exported by the contracts of flush_helper / abort: `taken` is the waker woken after the critical section
pub open spec fn prod_rel(a: Sh, b: Sh, taken: Option<u64>) -> bool {
    ||| (b == a && taken.is_none())                                   // no-op critical section
    ||| (b.waker.is_none() && taken == a.waker)                       // published something: waker slot emptied, old waker is woken
}

pub open spec fn inv(s: Sys) -> bool {
    s.parked matches Some(p) ==> ((s.sh.waker == Some(p) && !avail(s.sh)) || s.pend.contains(p))
}

pub open spec fn step(s: Sys, t: Sys) -> bool {
    ||| (exists|w: u64, pending: bool| poll_rel(s.sh, w, t.sh, pending) && t.pend == s.pend && t.parked == (if pending { Some(w) } else { None::<u64> }))
    ||| (exists|taken: Option<u64>| prod_rel(s.sh, t.sh, taken) && t.parked == s.parked && t.pend == (if taken is Some { s.pend.push(taken.unwrap()) } else { s.pend }))
    ||| (exists|i: int| 0 <= i < s.pend.len() && t.sh == s.sh && t.pend == s.pend.remove(i) && t.parked == (if s.parked == Some(s.pend[i]) { None::<u64> } else { s.parked }))
}

pub proof fn inv_inductive(s: Sys, t: Sys)
    requires inv(s), step(s, t),
    ensures inv(t),
{
    if let Some(p) = t.parked {
        if exists|i: int| 0 <= i < s.pend.len() && t.sh == s.sh && t.pend == s.pend.remove(i) && t.parked == (if s.parked == Some(s.pend[i]) { None::<u64> } else { s.parked }) {
            let i = choose|i: int| 0 <= i < s.pend.len() && t.sh == s.sh && t.pend == s.pend.remove(i) && t.parked == (if s.parked == Some(s.pend[i]) { None::<u64> } else { s.parked });
            assert(s.parked == Some(p) && s.pend[i] != p);
            if s.pend.contains(p) {
                let j = choose|j: int| 0 <= j < s.pend.len() && s.pend[j] == p;
                assert(j != i);
                if j < i { assert(t.pend[j] == p); } else { assert(t.pend[j - 1] == p); }
            }
        } else if exists|taken: Option<u64>| prod_rel(s.sh, t.sh, taken) && t.parked == s.parked && t.pend == (if taken is Some { s.pend.push(taken.unwrap()) } else { s.pend }) {
            let taken = choose|taken: Option<u64>| prod_rel(s.sh, t.sh, taken) && t.parked == s.parked && t.pend == (if taken is Some { s.pend.push(taken.unwrap()) } else { s.pend });
            if s.pend.contains(p) {
                let j = choose|j: int| 0 <= j < s.pend.len() && s.pend[j] == p;
                assert(t.pend[j] == p);
            } else if !(t.sh == s.sh) {
                assert(taken == Some(p));
                assert(t.pend[s.pend.len() as int] == p);
            }
        } else {
        }
    }
}

// safety consequence: a parked consumer with something available always has a wake in flight
pub proof fn no_lost_wakeup(s: Sys)
    requires inv(s), s.parked is Some, avail(s.sh),
    ensures s.pend.contains(s.parked.unwrap()),
{}

} // verus!
fn main() {}
