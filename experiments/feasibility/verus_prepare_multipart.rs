use vstd::prelude::*;
use std::ops::Range;

macro_rules! write {
    ($dst:expr, $fmt:literal, $a:expr, $b:expr, $c:expr) => { verif_write_fmt3($dst, $fmt, $a, $b, $c) };
}

verus! {

pub uninterp spec fn fmt3(f: &str, a: u64, b: u64, c: u64) -> Seq<u8>;
pub struct FmtResult;
impl FmtResult { pub fn unwrap(self) {} }
#[verifier::external_body]
pub fn verif_write_fmt3(dst: &mut Vec<u8>, f: &str, a: u64, b: u64, c: u64) -> (r: FmtResult)
    ensures final(dst)@ == old(dst)@ + fmt3(f, a, b, c), fmt3(f, a, b, c).len() <= 200
{ unimplemented!() }

pub struct MultipartLenOverflowError;
pub const PART_TRAILER_LEN: usize = 9;
fn as_u64(len: usize) -> (r: u64) ensures r == len { len as u64 }

pub open spec fn total(ph: Seq<Vec<u8>>, rg: Seq<Range<u64>>, i: int) -> int
    decreases i
{
    if i <= 0 { 0 } else { total(ph, rg, i - 1) + ph[i-1]@.len() + (rg[i-1].end - rg[i-1].start) }
}

fn prepare(ranges: &[Range<u64>], len: u64, each_part_headers: &Vec<u8>) -> (res: Result<(Vec<Vec<u8>>, u64), MultipartLenOverflowError>)
    requires forall|j: int| 0 <= j < ranges@.len() ==> (#[trigger] ranges@[j]).start < ranges@[j].end,
    ensures res matches Ok((ph, bl)) ==> ph@.len() == ranges@.len() && bl == total(ph@, ranges@, ranges@.len() as int) + 9,
{
    let mut body_len: u64 = 0;
    let mut part_headers: Vec<Vec<u8>> = Vec::with_capacity(ranges.len());
    for r in ranges
    {
        let mut buf = Vec::with_capacity(
            "\r\n--B\r\nContent-Range: bytes -/\r\n".len()
                + 3 * 20
                + each_part_headers.len()
                + "\r\n".len(),
        );
        write!(
            &mut buf,
            "\r\n--B\r\nContent-Range: bytes {}-{}/{}\r\n",
            r.start,
            r.end - 1,
            len
        )
        .unwrap();
        buf.extend_from_slice(&each_part_headers);
        buf.extend_from_slice(b"\r\n");
        body_len = body_len
            .checked_add(as_u64(buf.len()))
            .and_then(|l: u64| l.checked_add(r.end - r.start))
            .ok_or(MultipartLenOverflowError)?;
        part_headers.push(buf);
    }
    body_len = body_len
        .checked_add(as_u64(PART_TRAILER_LEN))
        .ok_or(MultipartLenOverflowError)?;
    Ok((part_headers, body_len))
}

} // verus!
fn main() {}
