#![feature(allocator_api)]
use vstd::prelude::*;
use std::collections::VecDeque;
verus! {

pub mod ax { use vstd::prelude::*;
pub uninterp spec fn dflt<T>() -> T;
pub uninterp spec fn cap_of(v: &Vec<u8>) -> nat;
pub broadcast axiom fn dflt_vec_u8() ensures (#[trigger] dflt::<Vec<u8>>())@ == Seq::<u8>::empty(), cap_of(&dflt::<Vec<u8>>()) == 0;
pub broadcast axiom fn dflt_deque() ensures (#[trigger] dflt::<std::collections::VecDeque<Vec<u8>>>())@ == Seq::<Vec<u8>>::empty();
}
use ax::*;
broadcast use {ax::dflt_vec_u8, ax::dflt_deque};

pub assume_specification<T: Default>[ std::mem::take::<T> ](x: &mut T) -> (r: T)
    ensures r == *old(x), *final(x) == dflt::<T>();

pub struct Waker { pub id: u64 }
impl Waker {
    #[verifier::external_body]
    pub fn wake(self, log: &mut Ghost<Seq<u64>>) ensures final(log)@ == old(log)@.push(self.id) { unimplemented!() }
}

pub struct Shared<E> { pub state: SharedState<E>, pub waker: Option<Waker> }
pub enum SharedState<E> {
    Ok { ready: VecDeque<Vec<u8>>, ready_bytes: usize, writer_dropped: bool },
    Err(E),
    ReaderFused,
}

pub struct Writer<E> { pub shared: Shared<E>, pub buf: Vec<u8>, pub cap: usize }

pub struct IoError { pub kind: u8 }

// Vec capacity model (assumed contracts on std::vec::Vec)
#[verifier::external_body]
fn vec_capacity(v: &Vec<u8>) -> (r: usize) ensures r == cap_of(v), r >= v@.len() { v.capacity() }
#[verifier::external_body]
fn vec_reserve_exact(v: &mut Vec<u8>, n: usize) ensures final(v)@ == old(v)@, cap_of(final(v)) >= old(v)@.len() + n { v.reserve_exact(n) }
#[verifier::external_body]
fn vec_extend_from_slice(v: &mut Vec<u8>, s: &[u8]) ensures final(v)@ == old(v)@ + s@, old(v)@.len() + s@.len() <= cap_of(old(v)) ==> cap_of(final(v)) == cap_of(old(v)) { v.extend_from_slice(s) }

impl<E> Writer<E> {
    fn flush_helper(&mut self, dropping: bool, log: &mut Ghost<Seq<u64>>) -> (r: Result<(), ()>) {
        if self.buf.is_empty() && !dropping {
            return Ok(());
        }
        let l = &mut self.shared;
        let waker = if let SharedState::Ok {
            ready,
            ready_bytes,
            writer_dropped,
        } = &mut l.state
        {
            if !self.buf.is_empty() {
                let full_buf = std::mem::take(&mut self.buf);
                *ready_bytes += full_buf.len();
                ready.push_back(full_buf);
            }
            *writer_dropped = dropping;
            l.waker.take()
        } else if !self.buf.is_empty() {
            return Err(());
        } else {
            return Ok(());
        };
        if let Some(w) = waker {
            w.wake(log);
        }
        Ok(())
    }

    fn write(&mut self, buf: &[u8], log: &mut Ghost<Seq<u64>>) -> (r: Result<usize, IoError>) {
        if vec_capacity(&self.buf) == 0 {
            vec_reserve_exact(&mut self.buf, self.cap);
        } else {
            assert(cap_of(&self.buf) >= self.cap);
        }
        let remaining = vec_capacity(&self.buf) - self.buf.len();
        let full = remaining <= buf.len();
        let bytes = if full { remaining } else { buf.len() };
        vec_extend_from_slice(&mut self.buf, &buf[0..bytes]);
        if full {
            self.flush(log)?;
        }
        Ok(bytes)
    }

    fn flush(&mut self, log: &mut Ghost<Seq<u64>>) -> (r: Result<(), IoError>) {
        match self.flush_helper(false, log) { Ok(()) => Ok(()), Err(_) => Err(IoError { kind: 1 }) }
    }
}

} // verus!
fn main() {}
