use vstd::prelude::*;
use std::ops::Range;
verus! {
pub mod stub {
    use vstd::prelude::*;
    pub struct Str { pub id: int }
    pub uninterp spec fn sp_split(s: Str, sep: char) -> Seq<Str>;
    pub uninterp spec fn sp_trim_start(s: Str) -> Str;
    pub uninterp spec fn sp_find(s: Str, c: char) -> Option<usize>;
    pub uninterp spec fn sp_len(s: Str) -> usize;
    pub uninterp spec fn sp_slice(s: Str, a: usize, b: usize) -> Str;
    pub uninterp spec fn sp_u64(s: Str) -> Option<u64>;
    pub uninterp spec fn sp_strip_prefix(s: Str, p: Seq<char>) -> Option<Str>;
    pub struct Split { pub rest: Ghost<Seq<Str>>, }
    impl Split {
        #[verifier::external_body]
        pub fn next(&mut self) -> (r: Option<Str>)
            ensures old(self).rest@.len() == 0 ==> r.is_none() && final(self).rest@ == old(self).rest@,
                    old(self).rest@.len() > 0 ==> r == Some(old(self).rest@[0]) && final(self).rest@ == old(self).rest@.subrange(1, old(self).rest@.len() as int)
        { unimplemented!() }
    }
    impl Str {
        #[verifier::external_body] pub fn split(&self, sep: char) -> (r: Split) ensures r.rest@ == sp_split(*self, sep) { unimplemented!() }
        #[verifier::external_body] pub fn trim_start_matches(&self, pat: [char; 2]) -> (r: Str) ensures r == sp_trim_start(*self) { unimplemented!() }
        #[verifier::external_body] pub fn find(&self, c: char) -> (r: Option<usize>) ensures r == sp_find(*self, c), r matches Some(h) ==> h < sp_len(*self) { unimplemented!() }
        #[verifier::external_body] pub fn len(&self) -> (r: usize) ensures r == sp_len(*self) { unimplemented!() }
        #[verifier::external_body] pub fn slice(&self, a: usize, b: usize) -> (r: Str) requires a <= b <= sp_len(*self) ensures r == sp_slice(*self, a, b) { unimplemented!() }
        #[verifier::external_body] pub fn strip_prefix(&self, p: &str) -> (r: Option<Str>) ensures r == sp_strip_prefix(*self, p@) { unimplemented!() }
    }
    pub struct PErr;
    #[verifier::external_body] pub fn u64_from_str(s: Str) -> (r: Result<u64, PErr>) ensures r.is_ok() == sp_u64(s).is_some(), r matches Ok(v) ==> v == sp_u64(s).unwrap() { unimplemented!() }
    pub fn min_u64(a: u64, b: u64) -> (r: u64) ensures r == (if a <= b { a } else { b }) { if a <= b { a } else { b } }
}
use stub::*;

pub enum ResolvedRanges { None, NotSatisfiable, Satisfiable(Vec<Range<u64>>) }


pub enum Form { Suffix(u64), From(u64), Closed(u64, u64) }

pub open spec fn lex(e: Str) -> Option<Form> {
    let r = sp_trim_start(e);
    match sp_find(r, '-') {
        None => None,
        Some(h) => if h == 0 {
            match sp_u64(sp_slice(r, 1, sp_len(r))) { Some(n) => Some(Form::Suffix(n)), None => None }
        } else {
            match sp_u64(sp_slice(r, 0, h)) {
                None => None,
                Some(f) => if sp_len(r) > h + 1 {
                    match sp_u64(sp_slice(r, (h + 1) as usize, sp_len(r))) { None => None, Some(l) => Some(Form::Closed(f, l)) }
                } else { Some(Form::From(f)) }
            }
        }
    }
}

/// RFC 7233 resolution of one spec against entity length `l`, as a half-open range.
pub open spec fn resolve(f: Form, l: u64) -> Option<(int, int)> {
    match f {
        Form::Suffix(n) => { let m = if n <= l { n } else { l }; if m == 0 { None } else { Some((l - m, l as int)) } }
        Form::From(a) => if a < l { Some((a as int, l as int)) } else { None },
        Form::Closed(a, b) => if a < l && a <= b { Some((a as int, (if b <= l - 1 { b } else { (l - 1) as u64 }) + 1)) } else { None },
    }
}

pub open spec fn all_lex(es: Seq<Str>, k: int) -> bool { forall|j: int| 0 <= j < k ==> lex(#[trigger] es[j]).is_some() }

pub open spec fn sel(es: Seq<Str>, k: int, l: u64) -> Seq<(int, int)>
    decreases k
{
    if k <= 0 { Seq::empty() } else {
        let prev = sel(es, k - 1, l);
        match lex(es[k - 1]) { Some(f) => match resolve(f, l) { Some(x) => prev.push(x), None => prev }, None => prev }
    }
}

pub open spec fn view_ranges(v: Seq<Range<u64>>) -> Seq<(int, int)> { Seq::new(v.len(), |i: int| (v[i].start as int, v[i].end as int)) }

pub proof fn lemma_not_all(es: Seq<Str>, j: int)
    requires 0 <= j < es.len(), lex(es[j]) is None,
    ensures !all_lex(es, es.len() as int),
{}

pub open spec fn parse_spec(range: Option<Str>, len: u64, r: ResolvedRanges) -> bool {
    match range {
        None => r is None,
        Some(h) => match sp_strip_prefix(h, "bytes="@) {
            None => r is None,
            Some(bytes) => {
                let es = sp_split(bytes, ',');
                if !all_lex(es, es.len() as int) { r is None }
                else if sel(es, es.len() as int, len).len() == 0 { r is NotSatisfiable }
                else { r matches ResolvedRanges::Satisfiable(v) && view_ranges(v@) =~= sel(es, es.len() as int, len) }
            }
        }
    }
}

pub fn parse(range: Option<Str>, len: u64) -> (res: ResolvedRanges)
    ensures parse_spec(range, len, res)
{
    let ghost range0 = range;
    let range_s = match range {
        None => return ResolvedRanges::None,
        Some(r) => r,
    };

    // byte-ranges-specifier = bytes-unit "=" byte-range-set
    let Some(bytes) = range_s.strip_prefix("bytes=") else {
        return ResolvedRanges::None;
    };

    // byte-range-set  = 1#( byte-range-spec / suffix-byte-range-spec )
    let mut ranges: Vec<Range<u64>> = Vec::new();
    let mut it = bytes.split(',');
    let ghost es = sp_split(bytes, ',');
    let ghost mut k: int = 0;
    loop
        invariant 0 <= k <= es.len(), it.rest@ =~= es.subrange(k, es.len() as int), all_lex(es, k), view_ranges(ranges@) =~= sel(es, k, len),
            range0 == range, range == Some(range_s), sp_strip_prefix(range_s, "bytes="@) == Some(bytes), es == sp_split(bytes, ','),
        ensures it.rest@.len() == 0,
        decreases it.rest@.len(),
    {
        proof { if it.rest@.len() > 0 { assert(it.rest@[0] == es[k]); } }
        let ghost k0 = k;
        let Some(r) = it.next() else { break };
        proof { k = k + 1; assert(it.rest@ =~= es.subrange(k, es.len() as int)); assert(r == es[k0]); }
        let ghost rg0 = ranges@;
        // Trim OWS = *( SP / HTAB )
        let r = r.trim_start_matches([' ', '\t']);

        let hyphen = match r.find('-') {
            None => { proof { lemma_not_all(es, k0); assert(!all_lex(es, es.len() as int));  assert(parse_spec(range0, len, ResolvedRanges::None)); } return ResolvedRanges::None }, // unparseable.
            Some(h) => h,
        };
        if hyphen == 0 {
            // It's a suffix-byte-range-spec.
            let last = match u64_from_str(r.slice(1, r.len())) {
                Err(_) => { proof { lemma_not_all(es, k0); } return ResolvedRanges::None }, // unparseable
                Ok(l) => l,
            };
            if last >= len {
                continue; // this range is not satisfiable; skip.
            }
            ranges.push((len - last)..len);
            proof { assert(view_ranges(ranges@) =~= view_ranges(rg0).push(((len - last) as int, len as int))); }
        } else {
            let first = match u64_from_str(r.slice(0, hyphen)) {
                Err(_) => { proof { lemma_not_all(es, k0); } return ResolvedRanges::None }, // unparseable
                Ok(f) => f,
            };
            let end = if r.len() > hyphen + 1 {
                min_u64(
                    match u64_from_str(r.slice(hyphen + 1, r.len())) {
                        Err(_) => { proof { lemma_not_all(es, k0); } return ResolvedRanges::None }, // unparseable
                        Ok(l) => l,
                    } + 1,
                    len,
                )
            } else {
                len // no end specified; use EOF.
            };
            if first >= end {
                continue; // this range is not satisfiable; skip.
            }
            ranges.push(first..end);
            proof { assert(view_ranges(ranges@) =~= view_ranges(rg0).push((first as int, end as int))); }
        }
    }
    proof { assert(it.rest@.len() == 0); assert(k == es.len());  assert(parse_spec(range0, len, ResolvedRanges::NotSatisfiable) || sel(es, es.len() as int, len).len() != 0); }
    if !ranges.is_empty() {
        proof { assert(view_ranges(ranges@).len() == ranges@.len()); }
        return ResolvedRanges::Satisfiable(ranges);
    }
    ResolvedRanges::NotSatisfiable
}
}
fn main() {}
