#![feature(allocator_api)]
use vstd::prelude::*;
use std::collections::VecDeque;
use std::task::Poll;
verus! {

#[verifier::external_type_specification]
#[verifier::accept_recursive_types(T)]
pub struct ExPoll<T>(Poll<T>);

// ---------------- prelude: assumed contracts on std ----------------
pub mod ax { use vstd::prelude::*;

pub uninterp spec fn dflt<T>() -> T;
pub uninterp spec fn cap_of<T, A: std::alloc::Allocator>(v: &Vec<T, A>) -> nat;
pub broadcast axiom fn dflt_vec_u8() ensures (#[trigger] dflt::<Vec<u8>>())@ == Seq::<u8>::empty(), cap_of(&dflt::<Vec<u8>>()) == 0;
pub broadcast axiom fn dflt_deque() ensures (#[trigger] dflt::<std::collections::VecDeque<Vec<u8>>>())@ == Seq::<Vec<u8>>::empty();
}
use ax::*;
broadcast use {ax::dflt_vec_u8, ax::dflt_deque};

pub assume_specification<T: Default>[ std::mem::take::<T> ](x: &mut T) -> (r: T)
    ensures r == *old(x), *final(x) == dflt::<T>();
pub assume_specification<T>[ std::mem::replace::<T> ](x: &mut T, v: T) -> (r: T)
    ensures r == *old(x), *final(x) == v;
pub assume_specification<T, A: std::alloc::Allocator>[ VecDeque::<T, A>::is_empty ](q: &VecDeque<T, A>) -> (r: bool)
    ensures r == (q@.len() == 0);
pub assume_specification<T, A: std::alloc::Allocator>[ Vec::<T, A>::capacity ](v: &Vec<T, A>) -> (r: usize)
    ensures r == cap_of(v), r >= v@.len();
pub assume_specification<T, A: std::alloc::Allocator>[ Vec::<T, A>::reserve_exact ](v: &mut Vec<T, A>, n: usize)
    ensures final(v)@ == old(v)@, cap_of(final(v)) >= old(v)@.len() + n;
#[verifier::external_body]
fn vec_extend_from_slice(v: &mut Vec<u8>, s: &[u8])
    ensures final(v)@ == old(v)@ + s@, old(v)@.len() + s@.len() <= cap_of(old(v)) ==> cap_of(final(v)) == cap_of(old(v))
{ v.extend_from_slice(s) }

pub struct Waker { pub id: u64 }
impl Waker {
    #[verifier::external_body]
    pub fn will_wake(&self, o: &Waker) -> (r: bool) ensures r ==> self.id == o.id { unimplemented!() }
    pub fn clone_from(&mut self, o: &Waker) ensures final(self).id == o.id { self.id = o.id; }
    pub fn clone(&self) -> (r: Waker) ensures r.id == self.id { Waker { id: self.id } }
    #[verifier::external_body]
    pub fn wake(self, log: &mut Ghost<Seq<u64>>) ensures final(log)@ == old(log)@.push(self.id) { unimplemented!() }
}
pub struct Context { pub w: Waker }
impl Context { pub fn waker(&self) -> (r: &Waker) ensures r.id == self.w.id { &self.w } }
pub struct IoError { pub kind: u8 }
pub trait FromVec: Sized { spec fn bytes(&self) -> Seq<u8>; fn from(v: Vec<u8>) -> (r: Self) ensures r.bytes() == v@; }

// ---------------- extracted types (R4: Arc<Mutex<Shared>> -> Shared) ----------------
pub struct Shared<E> { pub state: SharedState<E>, pub waker: Option<Waker> }
pub enum SharedState<E> {
    Ok { ready: VecDeque<Vec<u8>>, ready_bytes: usize, writer_dropped: bool },
    Err(E),
    ReaderFused,
}
pub struct Reader<E> { pub shared: Shared<E> }
pub struct Writer<E> { pub shared: Shared<E>, pub buf: Vec<u8>, pub cap: usize }

// ---------------- specification ----------------
pub open spec fn total(q: Seq<Vec<u8>>) -> nat decreases q.len() {
    if q.len() == 0 { 0 } else { total(q.drop_last()) + q.last()@.len() }
}
pub open spec fn flat(q: Seq<Vec<u8>>) -> Seq<u8> decreases q.len() {
    if q.len() == 0 { Seq::empty() } else { flat(q.drop_last()) + q.last()@ }
}
pub proof fn lemma_push(q: Seq<Vec<u8>>, v: Vec<u8>)
    ensures total(q.push(v)) == total(q) + v@.len(), flat(q.push(v)) == flat(q) + v@
{ assert(q.push(v).drop_last() =~= q); }
pub proof fn lemma_pop_front(q: Seq<Vec<u8>>)
    requires q.len() > 0
    ensures total(q) == q[0]@.len() + total(q.subrange(1, q.len() as int)), flat(q) =~= q[0]@ + flat(q.subrange(1, q.len() as int))
    decreases q.len()
{
    if q.len() == 1 { assert(q.drop_last() =~= Seq::<Vec<u8>>::empty()); assert(q.subrange(1, 1) =~= Seq::<Vec<u8>>::empty()); }
    else {
        lemma_pop_front(q.drop_last());
        assert(q.drop_last().subrange(1, q.len() - 1) =~= q.subrange(1, q.len() as int).drop_last());
        assert(q.subrange(1, q.len() as int).last() == q.last());
        assert(q.drop_last()[0] == q[0]);
    }
}

impl<E> Shared<E> {
    pub open spec fn wf(&self) -> bool {
        match self.state {
            SharedState::Ok { ready, ready_bytes, writer_dropped } => ready_bytes == total(ready@) && forall|i: int| 0 <= i < ready@.len() ==> (#[trigger] ready@[i])@.len() > 0,
            _ => true,
        }
    }
    pub open spec fn is_ok(&self) -> bool { self.state is Ok }
    pub open spec fn queue(&self) -> Seq<Vec<u8>> { match self.state { SharedState::Ok { ready, .. } => ready@, _ => Seq::empty() } }
    pub open spec fn wdropped(&self) -> bool { match self.state { SharedState::Ok { writer_dropped, .. } => writer_dropped, _ => false } }
}

impl<E> Reader<E> {
    fn poll_next<D: FromVec>(&mut self, cx: &mut Context) -> (r: Poll<Option<Result<D, E>>>)
        requires old(self).shared.wf(),
        ensures final(self).shared.wf(),
            match old(self).shared.state {
                SharedState::Ok { ready, ready_bytes, writer_dropped } =>
                    if ready@.len() > 0 {
                        (r matches Poll::Ready(Some(Ok(d))) && d.bytes() == ready@[0]@ && d.bytes().len() > 0)
                        && (if ready@.len() > 1 || !writer_dropped { final(self).shared.is_ok() && final(self).shared.queue() =~= ready@.subrange(1, ready@.len() as int) && final(self).shared.wdropped() == writer_dropped }
                            else { final(self).shared.state is ReaderFused })
                        && final(self).shared.waker == old(self).shared.waker
                    } else if !writer_dropped {
                        r is Pending && final(self).shared.is_ok() && final(self).shared.queue() =~= ready@ && !final(self).shared.wdropped()
                        && (final(self).shared.waker matches Some(w) && w.id == old(cx).w.id)
                    } else {
                        r matches Poll::Ready(None) && final(self).shared.state is ReaderFused
                    },
                SharedState::Err(e) => r matches Poll::Ready(Some(Err(e2))) && e2 == e && final(self).shared.state is ReaderFused,
                SharedState::ReaderFused => r matches Poll::Ready(None) && final(self).shared.state is ReaderFused,
            }
    {
        let l = &mut self.shared;
        match std::mem::replace(&mut l.state, SharedState::ReaderFused) {
            SharedState::Ok {
                mut ready,
                mut ready_bytes,
                writer_dropped,
            } => {
                let ghost q0 = ready@;
                if let Some(c) = ready.pop_front() {
                    proof { lemma_pop_front(q0); }
                    ready_bytes -= c.len();
                    if !ready.is_empty() || !writer_dropped {
                        // more chunks may follow.
                        l.state = SharedState::Ok {
                            ready,
                            ready_bytes,
                            writer_dropped,
                        };
                    }
                    return Poll::Ready(Some(Ok(D::from(c))));
                }

                assert(ready_bytes == 0);

                if !writer_dropped {
                    match l.waker.as_mut() {
                        Some(w) if !w.will_wake(cx.waker()) => w.clone_from(cx.waker()),
                        Some(_) => {}
                        None => l.waker = Some(cx.waker().clone()),
                    }
                    l.state = SharedState::Ok {
                        ready,
                        ready_bytes,
                        writer_dropped,
                    };
                    return Poll::Pending;
                }

                Poll::Ready(None)
            }
            SharedState::Err(e) => Poll::Ready(Some(Err(e))),
            SharedState::ReaderFused => Poll::Ready(None),
        }
    }
}

impl<E> Writer<E> {
    pub open spec fn wf(&self) -> bool {
        &&& self.shared.wf()
        &&& self.cap > 0
        &&& (cap_of(&self.buf) == 0 ==> self.buf@.len() == 0)
        &&& (cap_of(&self.buf) != 0 ==> cap_of(&self.buf) >= self.cap)
        &&& (self.shared.is_ok() && cap_of(&self.buf) != 0 ==> self.buf@.len() < cap_of(&self.buf))
    }

    pub open spec fn wf_full_ok(&self) -> bool {
        &&& self.shared.wf()
        &&& self.cap > 0
        &&& (cap_of(&self.buf) == 0 ==> self.buf@.len() == 0)
        &&& (cap_of(&self.buf) != 0 ==> cap_of(&self.buf) >= self.cap)
        &&& self.buf@.len() <= cap_of(&self.buf)
    }

    fn flush_helper(&mut self, dropping: bool, log: &mut Ghost<Seq<u64>>) -> (r: Result<(), ()>)
        requires old(self).wf_full_ok(), old(self).shared.is_ok() ==> total(old(self).shared.queue()) + old(self).buf@.len() <= usize::MAX,
        ensures final(self).wf_full_ok(), old(self).shared.is_ok() ==> final(self).wf(), final(self).cap == old(self).cap,
            if old(self).buf@.len() == 0 && !dropping { r.is_ok() && *final(self) == *old(self) && final(log)@ == old(log)@ }
            else if old(self).shared.is_ok() {
                r.is_ok() && final(self).shared.is_ok() && final(self).buf@.len() == 0
                && final(self).shared.queue() =~= (if old(self).buf@.len() > 0 { old(self).shared.queue().push(old(self).buf) } else { old(self).shared.queue() })
                && final(self).shared.wdropped() == dropping
                && final(self).shared.waker.is_none()
                && final(log)@ == (match old(self).shared.waker { Some(w) => old(log)@.push(w.id), None => old(log)@ })
            } else {
                r.is_err() == (old(self).buf@.len() > 0) && *final(self) == *old(self) && final(log)@ == old(log)@
            }
    {
        if self.buf.is_empty() && !dropping {
            return Ok(());
        }
        let l = &mut self.shared;
        let waker = if let SharedState::Ok {
            ready,
            ready_bytes,
            writer_dropped,
        } = &mut l.state
        {
            if !self.buf.is_empty() {
                let full_buf = std::mem::take(&mut self.buf);
                proof { lemma_push(ready@, full_buf); }
                *ready_bytes += full_buf.len();
                ready.push_back(full_buf);
            }
            *writer_dropped = dropping;
            l.waker.take()
        } else if !self.buf.is_empty() {
            return Err(());
        } else {
            return Ok(());
        };
        if let Some(w) = waker {
            w.wake(log);
        }
        Ok(())
    }

    fn flush(&mut self, log: &mut Ghost<Seq<u64>>) -> (r: Result<(), IoError>)
        requires old(self).wf_full_ok(), old(self).shared.is_ok() ==> total(old(self).shared.queue()) + old(self).buf@.len() <= usize::MAX,
        ensures final(self).wf_full_ok(), old(self).shared.is_ok() ==> final(self).wf(), final(self).cap == old(self).cap,
            old(self).shared.is_ok() ==> (r.is_ok() && final(self).buf@.len() == 0 && final(self).shared.is_ok()
                && flat(final(self).shared.queue()) =~= flat(old(self).shared.queue()) + old(self).buf@),
            !old(self).shared.is_ok() ==> (r.is_err() == (old(self).buf@.len() > 0)),
    {
        proof { if old(self).buf@.len() > 0 { lemma_push(old(self).shared.queue(), old(self).buf); } }
        match self.flush_helper(false, log) { Ok(v) => Ok(v), Err(_e) => Err(IoError { kind: 1 }) }
    }

    fn write(&mut self, buf: &[u8], log: &mut Ghost<Seq<u64>>) -> (r: Result<usize, IoError>)
        requires old(self).wf(), old(self).shared.is_ok() ==> total(old(self).shared.queue()) + old(self).buf@.len() + buf@.len() <= usize::MAX,
        ensures final(self).wf_full_ok(), r.is_ok() ==> final(self).wf(), final(self).cap == old(self).cap,
            r matches Ok(k) ==> (k <= buf@.len() && (buf@.len() > 0 ==> k > 0)
                && flat(final(self).shared.queue()) + final(self).buf@ =~= flat(old(self).shared.queue()) + old(self).buf@ + buf@.subrange(0, k as int)),
            old(self).shared.is_ok() ==> r.is_ok(),
    {
        if self.buf.capacity() == 0 {
            self.buf.reserve_exact(self.cap);
        } else {
            let assert_cond = self.buf.capacity() >= self.cap; assert(assert_cond);
        }
        let remaining = self.buf.capacity() - self.buf.len();
        let full = remaining <= buf.len();
        let bytes = if full { remaining } else { buf.len() };
        vec_extend_from_slice(&mut self.buf, &buf[0..bytes]);
        if full {
            self.flush(log)?;
        }
        Ok(bytes)
    }
}

} // verus!
fn main() {}
