use vstd::prelude::*;
use std::ops::Range;
verus! {
pub mod stub {
    use vstd::prelude::*;
    pub struct Str { pub id: int }
    pub uninterp spec fn sp_split(s: Str, sep: char) -> Seq<Str>;
    pub uninterp spec fn sp_trim_start(s: Str) -> Str;
    pub uninterp spec fn sp_find(s: Str, c: char) -> Option<usize>;
    pub uninterp spec fn sp_len(s: Str) -> usize;
    pub uninterp spec fn sp_slice(s: Str, a: usize, b: usize) -> Str;
    pub uninterp spec fn sp_u64(s: Str) -> Option<u64>;
    pub uninterp spec fn sp_strip_prefix(s: Str, p: Seq<char>) -> Option<Str>;
    pub struct Split { pub rest: Ghost<Seq<Str>>, }
    impl Split {
        #[verifier::external_body]
        pub fn next(&mut self) -> (r: Option<Str>)
            ensures old(self).rest@.len() == 0 ==> r.is_none() && final(self).rest@ == old(self).rest@,
                    old(self).rest@.len() > 0 ==> r == Some(old(self).rest@[0]) && final(self).rest@ == old(self).rest@.subrange(1, old(self).rest@.len() as int)
        { unimplemented!() }
    }
    impl Str {
        #[verifier::external_body] pub fn split(&self, sep: char) -> (r: Split) ensures r.rest@ == sp_split(*self, sep) { unimplemented!() }
        #[verifier::external_body] pub fn trim_start_matches(&self, pat: [char; 2]) -> (r: Str) ensures r == sp_trim_start(*self) { unimplemented!() }
        #[verifier::external_body] pub fn find(&self, c: char) -> (r: Option<usize>) ensures r == sp_find(*self, c), r matches Some(h) ==> h < sp_len(*self) { unimplemented!() }
        #[verifier::external_body] pub fn len(&self) -> (r: usize) ensures r == sp_len(*self) { unimplemented!() }
        #[verifier::external_body] pub fn slice(&self, a: usize, b: usize) -> (r: Str) requires a <= b <= sp_len(*self) ensures r == sp_slice(*self, a, b) { unimplemented!() }
        #[verifier::external_body] pub fn strip_prefix(&self, p: &str) -> (r: Option<Str>) ensures r == sp_strip_prefix(*self, p@) { unimplemented!() }
    }
    pub struct PErr;
    #[verifier::external_body] pub fn u64_from_str(s: Str) -> (r: Result<u64, PErr>) ensures r.is_ok() == sp_u64(s).is_some(), r matches Ok(v) ==> v == sp_u64(s).unwrap() { unimplemented!() }
    pub fn min_u64(a: u64, b: u64) -> (r: u64) ensures r == (if a <= b { a } else { b }) { if a <= b { a } else { b } }
}
use stub::*;

pub enum ResolvedRanges { None, NotSatisfiable, Satisfiable(Vec<Range<u64>>) }

pub fn parse(range: Option<Str>, len: u64) -> ResolvedRanges {
    let range = match range {
        None => return ResolvedRanges::None,
        Some(r) => r,
    };

    // byte-ranges-specifier = bytes-unit "=" byte-range-set
    let Some(bytes) = range.strip_prefix("bytes=") else {
        return ResolvedRanges::None;
    };

    // byte-range-set  = 1#( byte-range-spec / suffix-byte-range-spec )
    let mut ranges: Vec<Range<u64>> = Vec::new();
    let mut it = bytes.split(',');
    loop decreases it.rest@.len(), {
        let Some(r) = it.next() else { break };
        // Trim OWS = *( SP / HTAB )
        let r = r.trim_start_matches([' ', '\t']);

        let hyphen = match r.find('-') {
            None => return ResolvedRanges::None, // unparseable.
            Some(h) => h,
        };
        if hyphen == 0 {
            // It's a suffix-byte-range-spec.
            let last = match u64_from_str(r.slice(1, r.len())) {
                Err(_) => return ResolvedRanges::None, // unparseable
                Ok(l) => l,
            };
            if last >= len {
                continue; // this range is not satisfiable; skip.
            }
            ranges.push((len - last)..len);
        } else {
            let first = match u64_from_str(r.slice(0, hyphen)) {
                Err(_) => return ResolvedRanges::None, // unparseable
                Ok(f) => f,
            };
            let end = if r.len() > hyphen + 1 {
                min_u64(
                    match u64_from_str(r.slice(hyphen + 1, r.len())) {
                        Err(_) => return ResolvedRanges::None, // unparseable
                        Ok(l) => l,
                    } + 1,
                    len,
                )
            } else {
                len // no end specified; use EOF.
            };
            if first >= end {
                continue; // this range is not satisfiable; skip.
            }
            ranges.push(first..end);
        }
    }
    if !ranges.is_empty() {
        return ResolvedRanges::Satisfiable(ranges);
    }
    ResolvedRanges::NotSatisfiable
}
}
fn main() {}
