#![feature(allocator_api)]
use vstd::prelude::*;
use std::collections::VecDeque;
use std::task::Poll;
verus! {

#[verifier::external_type_specification]
#[verifier::accept_recursive_types(T)]
pub struct ExPoll<T>(Poll<T>);

pub mod ax { use vstd::prelude::*;
pub uninterp spec fn dflt<T>() -> T;
pub broadcast axiom fn dflt_vec_u8() ensures (#[trigger] dflt::<Vec<u8>>())@ == Seq::<u8>::empty();
pub broadcast axiom fn dflt_deque() ensures (#[trigger] dflt::<std::collections::VecDeque<Vec<u8>>>())@ == Seq::<Vec<u8>>::empty();
}
use ax::dflt;
broadcast use {ax::dflt_vec_u8, ax::dflt_deque};

pub assume_specification<T: Default>[ std::mem::take::<T> ](x: &mut T) -> (r: T)
    ensures r == *old(x), *final(x) == dflt::<T>();
pub assume_specification<T>[ std::mem::replace::<T> ](x: &mut T, v: T) -> (r: T)
    ensures r == *old(x), *final(x) == v;

pub assume_specification<T, A: std::alloc::Allocator>[ VecDeque::<T, A>::is_empty ](q: &VecDeque<T, A>) -> (r: bool)
    ensures r == (q@.len() == 0);
// ---- stubs for std::task ----
pub struct Waker { pub id: u64 }
impl Waker {
    pub open spec fn same_task(&self, o: &Waker) -> bool { self.id == o.id }
    #[verifier::external_body]
    pub fn will_wake(&self, o: &Waker) -> (r: bool) ensures r ==> self.same_task(o) { unimplemented!() }
    pub fn clone_from(&mut self, o: &Waker) ensures final(self).id == o.id { self.id = o.id; }
    pub fn clone(&self) -> (r: Waker) ensures r.id == self.id { Waker { id: self.id } }
    #[verifier::external_body]
    pub fn wake(self, log: &mut Ghost<Seq<u64>>) ensures final(log)@ == old(log)@.push(self.id) { unimplemented!() }
}
pub struct Context { pub w: Waker }
impl Context { pub fn waker(&self) -> (r: &Waker) ensures r.id == self.w.id { &self.w } }

pub struct Shared<E> {
    pub state: SharedState<E>,
    pub waker: Option<Waker>,
}

pub enum SharedState<E> {
    Ok {
        ready: VecDeque<Vec<u8>>,
        ready_bytes: usize,
        writer_dropped: bool,
    },
    Err(E),
    ReaderFused,
}

pub struct Reader<E> {
    pub shared: Shared<E>,
}

pub trait FromVec: Sized { spec fn bytes(&self) -> Seq<u8>; fn from(v: Vec<u8>) -> (r: Self) ensures r.bytes() == v@; }

impl<E> Reader<E> {
    fn poll_next<D: FromVec>(&mut self, cx: &mut Context) -> (r: Poll<Option<Result<D, E>>>)
    {
        let l = &mut self.shared;
        match std::mem::replace(&mut l.state, SharedState::ReaderFused) {
            SharedState::Ok {
                mut ready,
                mut ready_bytes,
                writer_dropped,
            } => {
                if let Some(c) = ready.pop_front() {
                    ready_bytes -= c.len();
                    if !ready.is_empty() || !writer_dropped {
                        // more chunks may follow.
                        l.state = SharedState::Ok {
                            ready,
                            ready_bytes,
                            writer_dropped,
                        };
                    }
                    return Poll::Ready(Some(Ok(D::from(c))));
                }

                assert(ready_bytes == 0);

                if !writer_dropped {
                    match l.waker.as_mut() {
                        Some(w) if !w.will_wake(cx.waker()) => w.clone_from(cx.waker()),
                        Some(_) => {}
                        None => l.waker = Some(cx.waker().clone()),
                    }
                    l.state = SharedState::Ok {
                        ready,
                        ready_bytes,
                        writer_dropped,
                    };
                    return Poll::Pending;
                }

                Poll::Ready(None)
            }
            SharedState::Err(e) => Poll::Ready(Some(Err(e))),
            SharedState::ReaderFused => Poll::Ready(None),
        }
    }
}

} // verus!
fn main() {}
