use vstd::prelude::*;
verus! {

pub assume_specification<T>[ std::mem::replace::<T> ](x: &mut T, v: T) -> (r: T)
    ensures r == *old(x), *final(x) == v;

// ---------- (a) Body::size_hint dispatch ----------
pub struct SizeHint { pub lo: u64, pub hi: Option<u64> }
impl SizeHint { pub fn with_exact(n: u64) -> (r: SizeHint) ensures r.lo == n, r.hi == Some(n) { SizeHint { lo: n, hi: Some(n) } } }
pub trait Buf { spec fn rem(&self) -> nat; fn remaining(&self) -> (r: usize) ensures r == self.rem(); }
pub struct ExactLen { pub remaining: u64 }
pub struct Multi { pub remaining: u64 }
impl Multi { pub fn remaining(&self) -> (r: u64) ensures r == self.remaining { self.remaining } }
pub struct Chunk { pub x: u64 }
impl Chunk { pub fn size_hint(&self) -> SizeHint { SizeHint { lo: 0, hi: None } } pub fn is_end_stream(&self) -> bool { false } }
pub enum BodyStream<D, E> { Once(Option<Result<D, E>>), ExactLen(ExactLen), Multipart(Multi), Chunker(Chunk) }
pub struct Body<D, E>(pub BodyStream<D, E>);
impl<D: Buf, E> Body<D, E> {
    fn size_hint(&self) -> SizeHint {
        match &self.0 {
            BodyStream::Once(Some(Ok(d))) => SizeHint::with_exact(
                u64::try_from(d.remaining()).expect("usize should fit in u64"),
            ),
            BodyStream::Once(_) => SizeHint::with_exact(0),
            BodyStream::ExactLen(l) => SizeHint::with_exact(l.remaining),
            BodyStream::Multipart(s) => SizeHint::with_exact(s.remaining()),
            BodyStream::Chunker(c) => c.size_hint(),
        }
    }
    fn is_end_stream(&self) -> bool {
        match &self.0 {
            BodyStream::Once(c) => c.is_none(),
            BodyStream::ExactLen(l) => l.remaining == 0,
            BodyStream::Multipart(s) => s.remaining() == 0,
            BodyStream::Chunker(c) => c.is_end_stream(),
        }
    }
}

// ---------- (b) BodyWriter::abort ----------
pub struct CW { pub aborted: bool }
impl CW { pub fn abort(&mut self, e: u8) ensures final(self).aborted { self.aborted = true; } }
pub struct Gz { pub w: CW }
impl Gz { pub fn get_mut(&mut self) -> (r: &mut CW) { &mut self.w } }
pub enum Inner { Raw(CW), Gzipped(Gz), Dead }
pub struct BodyWriter(pub Inner);
impl BodyWriter {
    pub fn abort(&mut self, error: u8)
        ensures final(self).0 is Dead
    {
        match std::mem::replace(&mut self.0, Inner::Dead) {
            Inner::Dead => (),
            Inner::Raw(ref mut w) => w.abort(error),
            Inner::Gzipped(ref mut g) => g.get_mut().abort(error),
        };
    }
}
}
fn main() {}
