use vstd::prelude::*;
use std::ops::Range;

macro_rules! unsafe_fmt_ascii_val {
    ($max_len:expr, $fmt:literal, $a:expr) => { crate::http::fmt_val1($max_len, $fmt, $a) };
    ($max_len:expr, $fmt:literal, $a:expr, $b:expr, $c:expr) => { crate::http::fmt_val3($max_len, $fmt, $a, $b, $c) };
}

verus! {

pub assume_specification<T: Clone>[ <Range<T> as Clone>::clone ](r: &Range<T>) -> (x: Range<T>)
    ensures x.start == r.start, x.end == r.end;
// ======================= stub library: assumed contracts on dependencies =======================
pub mod stub {
    use vstd::prelude::*;
    #[derive(Clone, Copy)]
    pub struct SystemTime { pub secs: u64, pub nanos: u32 }
    pub uninterp spec fn clock_now() -> SystemTime;
    impl SystemTime {
        #[verifier::external_body]
        pub fn now() -> (r: SystemTime) ensures r == clock_now() { unimplemented!() }
    }
    pub open spec fn st_le(a: SystemTime, b: SystemTime) -> bool { a.secs < b.secs || (a.secs == b.secs && a.nanos <= b.nanos) }
    pub open spec fn st_min_s(a: SystemTime, b: SystemTime) -> SystemTime { if st_le(a, b) { a } else { b } }
    pub fn st_min(a: SystemTime, b: SystemTime) -> (r: SystemTime) ensures r == st_min_s(a, b)
    { if a.secs < b.secs || (a.secs == b.secs && a.nanos <= b.nanos) { a } else { b } }
    pub struct HDate { pub t: Ghost<SystemTime> }
    #[verifier::external_body]
    pub fn fmt_http_date(t: SystemTime) -> (r: HDate) ensures r.t@ == t { unimplemented!() }
}
use stub::SystemTime;
use stub::fmt_http_date;

pub mod http {
    use vstd::prelude::*;
    #[derive(Clone, Copy)]
    pub struct Method { pub k: u8 }
    impl PartialEq for Method { fn eq(&self, o: &Method) -> (r: bool) ensures r == (self.k == o.k) { self.k == o.k } }
    impl<'a> PartialEq<Method> for &'a Method { fn eq(&self, o: &Method) -> (r: bool) ensures r == (self.k == o.k) { self.k == o.k } }
    impl Method { pub const GET: Method = Method { k: 0 }; pub const HEAD: Method = Method { k: 1 }; }
    #[derive(PartialEq, Eq, Clone, Copy)]
    pub struct StatusCode { pub c: u16 }
    impl StatusCode {
        pub const METHOD_NOT_ALLOWED: StatusCode = StatusCode { c: 405 };
        pub const BAD_REQUEST: StatusCode = StatusCode { c: 400 };
        pub const PRECONDITION_FAILED: StatusCode = StatusCode { c: 412 };
        pub const NOT_MODIFIED: StatusCode = StatusCode { c: 304 };
        pub const PARTIAL_CONTENT: StatusCode = StatusCode { c: 206 };
        pub const PAYLOAD_TOO_LARGE: StatusCode = StatusCode { c: 413 };
        pub const RANGE_NOT_SATISFIABLE: StatusCode = StatusCode { c: 416 };
    }
    #[derive(PartialEq, Eq, Clone, Copy)]
    pub enum HeaderName { ALLOW, ACCEPT_RANGES, DATE, LAST_MODIFIED, ETAG, CONTENT_RANGE, CONTENT_LENGTH, CONTENT_TYPE, RANGE, IF_RANGE, IF_MATCH, IF_NONE_MATCH, IF_MODIFIED_SINCE, IF_UNMODIFIED_SINCE }
    pub mod header {
        pub use super::HeaderName::*;
        pub use super::HeaderValue;
        pub use super::HeaderMap;
    }

    /// Ghost meaning of a header value.
    pub enum HV { Static(Seq<char>), Fmt(Seq<char>, Seq<u64>), Date(crate::stub::SystemTime), Opaque(Seq<u8>) }
    pub struct HeaderValue { pub v: Ghost<HV>, pub bytes: Vec<u8> }
    impl HeaderValue {
        pub open spec fn wf(&self) -> bool { self.v@ matches HV::Opaque(b) ==> b == self.bytes@ }
        #[verifier::external_body]
        pub fn from_static(s: &'static str) -> (r: HeaderValue) ensures r.v@ == HV::Static(s@) { unimplemented!() }
        pub fn as_bytes(&self) -> (r: &[u8]) ensures r@ == self.bytes@ { self.bytes.as_slice() }
    }
    pub trait IntoHV { spec fn hv(&self) -> HV; }
    impl IntoHV for HeaderValue { open spec fn hv(&self) -> HV { self.v@ } }
    impl IntoHV for crate::stub::HDate { open spec fn hv(&self) -> HV { HV::Date(self.t@) } }

    #[verifier::external_body]
    pub fn fmt_val1(max_len: usize, f: &'static str, a: u64) -> (r: HeaderValue)
        ensures r.v@ == HV::Fmt(f@, seq![a]) { unimplemented!() }
    #[verifier::external_body]
    pub fn fmt_val3(max_len: usize, f: &'static str, a: u64, b: u64, c: u64) -> (r: HeaderValue)
        ensures r.v@ == HV::Fmt(f@, seq![a, b, c]) { unimplemented!() }

    pub struct RespView { pub status: int, pub hdrs: Seq<(HeaderName, HV)> }
    pub mod response {
        use vstd::prelude::*;
        use super::*;
        pub struct Builder { pub v: Ghost<RespView> }
        impl Builder {
            pub fn status(self, s: StatusCode) -> (r: Builder) ensures r.v@ == (RespView { status: s.c as int, ..self.v@ }) { Builder { v: Ghost(RespView { status: s.c as int, ..self.v@ }) } }
            pub fn header<V: IntoHV>(self, k: HeaderName, val: V) -> (r: Builder) ensures r.v@ == (RespView { hdrs: self.v@.hdrs.push((k, val.hv())), ..self.v@ }) { Builder { v: Ghost(RespView { hdrs: self.v@.hdrs.push((k, val.hv())), ..self.v@ }) } }
            pub fn body<B>(self, b: B) -> (r: Result<Response<B>, HttpError>) ensures r matches Ok(x) && x.v@ == self.v@ && x.body == b && !x.extra.entity_hdrs@ { Ok(Response { v: self.v, body: b, extra: HeaderMap::new() }) }
        }
    }
    /// `extra` stands for the headers an entity adds through `headers_mut()`.
    pub struct Response<B> { pub v: Ghost<RespView>, pub body: B, pub extra: HeaderMap }
    #[derive(Debug)]
    pub struct HttpError;
    impl Response<()> {
        pub fn builder() -> (r: response::Builder) ensures r.v@ == (RespView { status: 200, hdrs: Seq::empty() }) { response::Builder { v: Ghost(RespView { status: 200, hdrs: Seq::empty() }) } }
    }
    impl<B> Response<B> {
        pub fn headers_mut(&mut self) -> (r: &mut HeaderMap)
            ensures *r == old(self).extra, final(self).v == old(self).v, final(self).body == old(self).body, final(self).extra == *final(r)
        { &mut self.extra }
    }
    /// Request headers: ghost map; response-side use: only the flag "entity headers were added".
    pub struct HeaderMap { pub m: Ghost<Map<HeaderName, HeaderValue>>, pub entity_hdrs: Ghost<bool> }
    impl HeaderMap {
        pub fn new() -> (r: HeaderMap) ensures !r.entity_hdrs@, r.m@ == Map::<HeaderName, HeaderValue>::empty() { HeaderMap { m: Ghost(Map::empty()), entity_hdrs: Ghost(false) } }
        #[verifier::external_body]
        pub fn get(&self, k: HeaderName) -> (r: Option<&HeaderValue>)
            ensures r.is_some() == self.m@.dom().contains(k), r matches Some(v) ==> *v == self.m@[k]
        { unimplemented!() }
    }
}
use http::{Method, StatusCode, Response, HeaderMap};
use http::header::{self, HeaderValue};

pub trait DataT { spec fn rem(&self) -> nat; }

pub mod body {
    use vstd::prelude::*;
    #[verifier::external_body]
    #[verifier::reject_recursive_types(D)]
    #[verifier::reject_recursive_types(E)]
    pub struct InnerStream<D, E> { _d: std::marker::PhantomData<Box<(D, E)>> }
    #[verifier::reject_recursive_types(D)]
    #[verifier::reject_recursive_types(E)]
    pub struct ExactLenStream<D, E> { pub stream: InnerStream<D, E>, pub remaining: u64 }
    impl<D, E> ExactLenStream<D, E> {
        pub fn new(len: u64, stream: InnerStream<D, E>) -> (r: Self) ensures r.remaining == len, r.stream == stream { Self { stream, remaining: len } }
    }
    #[verifier::reject_recursive_types(D)]
    #[verifier::reject_recursive_types(E)]
    pub enum BodyStream<D, E> { Once(Ghost<Option<Seq<char>>>), ExactLen(ExactLenStream<D, E>) }
    #[verifier::reject_recursive_types(D)]
    #[verifier::reject_recursive_types(E)]
    pub struct Body<D, E>(pub BodyStream<D, E>);
    impl<D, E> Body<D, E> {
        #[verifier::external_body]
        pub fn from(s: &'static str) -> (r: Self) ensures r.0 == BodyStream::<D, E>::Once(Ghost(Some(s@))) { unimplemented!() }
        pub fn empty() -> (r: Self) ensures r.0 == BodyStream::<D, E>::Once(Ghost(None)) { Body(BodyStream::Once(Ghost(None))) }
    }
}
use body::Body;

pub mod lit {
    use vstd::prelude::*;
    #[verifier::external_body] pub fn b_w_slash_quote() -> (r: &'static [u8]) ensures r@ == seq![0x57u8, 0x2fu8, 0x22u8] { b"W/\"" }
    #[verifier::external_body] pub fn b_quote() -> (r: &'static [u8]) ensures r@ == seq![0x22u8] { b"\"" }
}
pub mod etag {
    use vstd::prelude::*;
    pub open spec fn strong_eq_s(a: Seq<u8>, b: Seq<u8>) -> bool { a == b && !(a.len() >= 2 && a[0] == 0x57 && a[1] == 0x2f) }
    #[verifier::external_body]
    pub fn strong_eq(a: &[u8], b: &[u8]) -> (r: bool) ensures r == strong_eq_s(a@, b@) { unimplemented!() }
}
pub mod range {
    use vstd::prelude::*;
    use std::ops::Range;
    pub enum ResolvedRanges { None, NotSatisfiable, Satisfiable(Vec<Range<u64>>) }
    pub open spec fn wf_ranges(v: Seq<Range<u64>>, len: u64) -> bool { v.len() >= 1 && forall|j: int| 0 <= j < v.len() ==> (#[trigger] v[j]).start < v[j].end && v[j].end <= len }
    /// abstract result of the range resolver (contract proved in V-range)
    pub uninterp spec fn rr(range: Option<crate::http::HeaderValue>, len: u64) -> ResolvedRanges;
    #[verifier::external_body]
    pub fn parse(range: Option<&crate::http::HeaderValue>, len: u64) -> (r: ResolvedRanges)
        ensures r == rr(match range { Some(h) => Some(*h), None => None }, len), r matches ResolvedRanges::Satisfiable(v) ==> wf_ranges(v@, len), range.is_none() ==> r is None
    { unimplemented!() }
}

#[verifier::external_body]
#[verifier::reject_recursive_types(D)]
#[verifier::reject_recursive_types(E)]
pub struct EntityRef<D, E> { _d: std::marker::PhantomData<Box<(D, E)>> }
pub uninterp spec fn e_len<D, E>(e: &EntityRef<D, E>) -> u64;
pub uninterp spec fn e_etag<D, E>(e: &EntityRef<D, E>) -> Option<HeaderValue>;
pub uninterp spec fn e_lm<D, E>(e: &EntityRef<D, E>) -> Option<SystemTime>;
pub uninterp spec fn e_stream<D, E>(e: &EntityRef<D, E>, a: u64, b: u64) -> body::InnerStream<D, E>;
impl<D, E> EntityRef<D, E> {
    #[verifier::external_body] pub fn len(&self) -> (r: u64) ensures r == e_len(self) { unimplemented!() }
    #[verifier::external_body] pub fn etag(&self) -> (r: Option<HeaderValue>) ensures r == e_etag(self) { unimplemented!() }
    #[verifier::external_body] pub fn last_modified(&self) -> (r: Option<SystemTime>) ensures r == e_lm(self) { unimplemented!() }
    #[verifier::external_body] pub fn get_range(&self, r: Range<u64>) -> (s: body::InnerStream<D, E>) ensures s == e_stream(self, r.start, r.end) { unimplemented!() }
    #[verifier::external_body] pub fn add_headers(&self, h: &mut HeaderMap) ensures final(h).entity_hdrs@, final(h).m == old(h).m { unimplemented!() }
}

pub uninterp spec fn pmh(etag: Option<HeaderValue>, req: Map<http::HeaderName, HeaderValue>, lm: Option<SystemTime>) -> Result<(bool, bool), &'static str>;
#[verifier::external_body]
fn parse_modified_hdrs(etag: &Option<HeaderValue>, req_hdrs: &HeaderMap, last_modified: Option<SystemTime>) -> (r: Result<(bool, bool), &'static str>)
    ensures r == pmh(*etag, req_hdrs.m@, last_modified)
{ unimplemented!() }

struct MultipartLenOverflowError;
#[verifier::external_body]
fn prepare_multipart(res: http::response::Builder, ranges: &[Range<u64>], len: u64, include_entity_headers: Option<HeaderMap>)
    -> Result<(http::response::Builder, Vec<Vec<u8>>, u64), MultipartLenOverflowError> { unimplemented!() }

const MAX_DECIMAL_U64_BYTES: usize = 20;

#[verifier::reject_recursive_types(D)]
#[verifier::reject_recursive_types(E)]
enum ServeInner<D, E> {
    Simple(Response<Body<D, E>>),
    Multipart {
        res: http::response::Builder,
        part_headers: Vec<Vec<u8>>,
        ranges: Vec<Range<u64>>,
        len: u64,
    },
}

// ======================= oracle: written from C01-C05, C13-C15 =======================
use http::{HeaderName, HV, RespView};
use body::BodyStream;

pub open spec fn common_hdrs<D, E>(ent: &EntityRef<D, E>) -> Seq<(HeaderName, HV)> {
    let a = seq![(HeaderName::ACCEPT_RANGES, HV::Static("bytes"@))];
    let b = match e_lm(ent) { Some(m) => a.push((HeaderName::DATE, HV::Date(stub::clock_now()))).push((HeaderName::LAST_MODIFIED, HV::Date(stub::st_min_s(m, stub::clock_now())))), None => a };
    match e_etag(ent) { Some(e) => b.push((HeaderName::ETAG, e.v@)), None => b }
}

pub open spec fn is_tag_form(b: Seq<u8>) -> bool { (b.len() >= 1 && b[0] == 0x22u8) || (b.len() >= 3 && b[0] == 0x57u8 && b[1] == 0x2fu8 && b[2] == 0x22u8) }
/// If-Range gate (C05): the Range header that is actually honoured.
pub open spec fn effective_range<D, E>(ent: &EntityRef<D, E>, req: Map<HeaderName, HeaderValue>) -> Option<HeaderValue> {
    if !req.dom().contains(HeaderName::RANGE) { None }
    else if !req.dom().contains(HeaderName::IF_RANGE) { Some(req[HeaderName::RANGE]) }
    else if !is_tag_form(req[HeaderName::IF_RANGE].bytes@) { None }
    else { match e_etag(ent) { Some(e) => if etag::strong_eq_s(req[HeaderName::IF_RANGE].bytes@, e.bytes@) { Some(req[HeaderName::RANGE]) } else { None }, None => None } }
}

spec fn simple<D, E>(out: ServeInner<D, E>, status: int, hdrs: Seq<(HeaderName, HV)>, entity_hdrs: bool) -> bool {
    out matches ServeInner::Simple(r) && r.v@.status == status && r.v@.hdrs == hdrs && r.extra.entity_hdrs@ == entity_hdrs
}
spec fn body_once<D, E>(out: ServeInner<D, E>, text: Option<Seq<char>>) -> bool {
    out matches ServeInner::Simple(r) && r.body.0 == BodyStream::<D, E>::Once(Ghost(text))
}
spec fn body_exact<D, E>(out: ServeInner<D, E>, ent: &EntityRef<D, E>, a: u64, b: u64) -> bool {
    out matches ServeInner::Simple(r) && (r.body.0 matches BodyStream::ExactLen(s) && s.remaining == b - a && s.stream == e_stream(ent, a, b))
}

spec fn serve_post<D, E>(ent: &EntityRef<D, E>, method: &Method, req: Map<HeaderName, HeaderValue>, out: ServeInner<D, E>) -> bool {
    let len = e_len(ent);
    let head = method.k == 1;
    if method.k != 0 && method.k != 1 {
        simple(out, 405, seq![(HeaderName::ALLOW, HV::Static("get, head"@))], false) && body_once(out, Some("This resource only supports GET and HEAD."@))
    } else { match pmh(e_etag(ent), req, e_lm(ent)) {
        Err(s) => simple(out, 400, Seq::empty(), false) && body_once(out, Some(s@)),
        Ok((pf, nm)) => {
            let common = common_hdrs(ent);
            if pf { simple(out, 412, common, false) && body_once(out, Some("Precondition failed"@)) }
            else if nm { simple(out, 304, common, false) && body_once(out, None) }
            else { match range::rr(effective_range(ent, req), len) {
                range::ResolvedRanges::None =>
                    simple(out, 200, common.push((HeaderName::CONTENT_LENGTH, HV::Fmt("{}"@, seq![len]))), true)
                    && (if head { body_once(out, None) } else { body_exact(out, ent, 0, len) }),
                range::ResolvedRanges::NotSatisfiable =>
                    simple(out, 416, common.push((HeaderName::CONTENT_RANGE, HV::Fmt("bytes */{}"@, seq![len]))), false) && body_once(out, None),
                range::ResolvedRanges::Satisfiable(v) =>
                    if v@.len() == 1 {
                        let r = v@[0];
                        simple(out, 206, common.push((HeaderName::CONTENT_RANGE, HV::Fmt("bytes {}-{}/{}"@, seq![r.start, (r.end - 1) as u64, len])))
                                               .push((HeaderName::CONTENT_LENGTH, HV::Fmt("{}"@, seq![(r.end - r.start) as u64]))),
                               !req.dom().contains(HeaderName::IF_RANGE))
                        && (if head { body_once(out, None) } else { body_exact(out, ent, r.start, r.end) })
                    } else { true /* multipart clause: not part of this probe */ },
            } }
        }
    } }
}

fn serve_inner<D: DataT, E>(
    ent: &EntityRef<D, E>,
    method: &Method,
    req_hdrs: &HeaderMap,
) -> (out: ServeInner<D, E>)
    requires forall|k: HeaderName| req_hdrs.m@.dom().contains(k) ==> (#[trigger] req_hdrs.m@[k]).wf(),
             e_etag(ent) matches Some(e) ==> e.wf(),
    ensures serve_post(ent, method, req_hdrs.m@, out),
{
    if method != Method::GET && method != Method::HEAD {
        return ServeInner::Simple(
            Response::builder()
                .status(StatusCode::METHOD_NOT_ALLOWED)
                .header(header::ALLOW, HeaderValue::from_static("get, head"))
                .body(Body::from("This resource only supports GET and HEAD."))
                .unwrap(),
        );
    }

    let last_modified = ent.last_modified();
    let etag = ent.etag();

    let (precondition_failed, not_modified) =
        match parse_modified_hdrs(&etag, req_hdrs, last_modified) {
            Err(s) => {
                return ServeInner::Simple(
                    Response::builder()
                        .status(StatusCode::BAD_REQUEST)
                        .body(Body::from(s))
                        .unwrap(),
                )
            }
            Ok(p) => p,
        };

    // See RFC 7233 section 4.1 <https://tools.ietf.org/html/rfc7233#section-4.1>: a Partial
    // Content response should include other representation header fields (aka entity-headers in
    // RFC 2616) iff the client didn't specify If-Range.
    let mut range_hdr = req_hdrs.get(header::RANGE);
    let include_entity_headers_on_range = match req_hdrs.get(header::IF_RANGE) {
        Some(if_range) => {
            let if_range = if_range.as_bytes();
            if if_range.starts_with(lit::b_w_slash_quote()) || if_range.starts_with(lit::b_quote()) {
                // etag case.
                if let Some(ref some_etag) = etag {
                    if etag::strong_eq(if_range, some_etag.as_bytes()) {
                        false
                    } else {
                        range_hdr = None;
                        true
                    }
                } else {
                    range_hdr = None;
                    true
                }
            } else {
                // Date case.
                // Use the strong validation rules for an origin server:
                // <https://tools.ietf.org/html/rfc7232#section-2.2.2>.
                // The resource could have changed twice in the supplied second, so never match.
                range_hdr = None;
                true
            }
        }
        None => true,
    };

    let mut res =
        Response::builder().header(header::ACCEPT_RANGES, HeaderValue::from_static("bytes"));
    if let Some(m) = last_modified {
        // See RFC 7232 section 2.2.1 <https://tools.ietf.org/html/rfc7232#section-2.2.1>: the
        // Last-Modified must not exceed the Date. To guarantee this, set the Date now rather than
        // let hyper set it.
        let d = SystemTime::now();
        res = res.header(header::DATE, fmt_http_date(d));
        let clamped_m = stub::st_min(m, d);
        res = res.header(header::LAST_MODIFIED, fmt_http_date(clamped_m));
    }
    if let Some(e) = etag {
        res = res.header(header::ETAG, e);
    }

    if precondition_failed {
        res = res.status(StatusCode::PRECONDITION_FAILED);
        return ServeInner::Simple(res.body(Body::from("Precondition failed")).unwrap());
    }

    if not_modified {
        res = res.status(StatusCode::NOT_MODIFIED);
        return ServeInner::Simple(res.body(Body::empty()).unwrap());
    }

    let len = ent.len();
    proof { reveal_strlit("bytes -/"); reveal_strlit("bytes */"); }
    let (range, include_entity_headers) = match range::parse(range_hdr, len) {
        range::ResolvedRanges::None => (0..len, true),
        range::ResolvedRanges::Satisfiable(ranges) => {
            if ranges.len() == 1 { let range = &ranges[0];
                res = res.header(
                    header::CONTENT_RANGE,
                    unsafe_fmt_ascii_val!(
                        MAX_DECIMAL_U64_BYTES * 3 + 8usize,
                        "bytes {}-{}/{}",
                        range.start,
                        range.end - 1,
                        len
                    ),
                );
                res = res.status(StatusCode::PARTIAL_CONTENT);
                (range.clone(), include_entity_headers_on_range)
            } else {
                // Before serving multiple ranges via multipart/byteranges, estimate the total
                // length. ("80" is the RFC's estimate of the size of each part's header.) If it's
                // more than simply serving the whole entity, do that instead.
                let est_len = { let mut acc_o: Option<u64> = Some(0u64); let mut k: usize = 0; while k < ranges.len() invariant k <= ranges.len(), range::wf_ranges(ranges@, len), decreases ranges.len() - k { let r = &ranges[k]; if let Some(acc) = acc_o { acc_o = acc.checked_add(80)
                        .and_then(|a| a.checked_add(r.end - r.start)); } k += 1; } acc_o };
                if matches!(est_len, Some(l) if l < len) {
                    let each_part_hdrs = include_entity_headers_on_range.then(|| {
                        let mut h = HeaderMap::new();
                        ent.add_headers(&mut h);
                        h
                    });
                    let (res, part_headers, len) =
                        match prepare_multipart(res, &ranges[..], len, each_part_hdrs) {
                            Ok(v) => v,
                            Err(MultipartLenOverflowError) => {
                                return ServeInner::Simple(
                                    Response::builder()
                                        .status(StatusCode::PAYLOAD_TOO_LARGE)
                                        .body(Body::from("Multipart response too large"))
                                        .unwrap(),
                                );
                            }
                        };
                    if method == Method::HEAD {
                        return ServeInner::Simple(res.body(Body::empty()).unwrap());
                    }
                    return ServeInner::Multipart {
                        res,
                        part_headers,
                        ranges: ranges,
                        len,
                    };
                }

                (0..len, true)
            }
        }
        range::ResolvedRanges::NotSatisfiable => {
            res = res.header(
                header::CONTENT_RANGE,
                unsafe_fmt_ascii_val!(MAX_DECIMAL_U64_BYTES + 8usize, "bytes */{}", len),
            );
            res = res.status(StatusCode::RANGE_NOT_SATISFIABLE);
            return ServeInner::Simple(res.body(Body::empty()).unwrap());
        }
    };
    let len = range.end - range.start;
    res = res.header(
        header::CONTENT_LENGTH,
        unsafe_fmt_ascii_val!(MAX_DECIMAL_U64_BYTES, "{}", len),
    );
    let body = if *method == Method::HEAD { Body::empty() } else { Body(crate::body::BodyStream::ExactLen(
            crate::body::ExactLenStream::new(range.end - range.start, ent.get_range(range)),
        )) };
    let ghost body0 = body;
    let mut res = res.body(body).unwrap();
    assert(res.body == body0);
    assert(method.k == 1 ==> body0.0 == BodyStream::<D, E>::Once(Ghost(None)));
    assert(method.k != 1 ==> body0.0 is ExactLen);
    if include_entity_headers {
        ent.add_headers(res.headers_mut());
    }
    proof {
        let req = req_hdrs.m@;
        let elen = e_len(ent);
        let common = common_hdrs(ent);
        assert(pmh(e_etag(ent), req, e_lm(ent)) matches Ok((pf, nm)) && !pf && !nm);
        if range::rr(effective_range(ent, req), elen) is None {
            assert(range.start == 0 && range.end == elen);
            assert(include_entity_headers);
            assert(res.extra.entity_hdrs@);
            assert(res.v@.status == 200);
            assert(res.v@.hdrs =~= common.push((HeaderName::CONTENT_LENGTH, HV::Fmt("{}"@, seq![elen]))));
            if method.k != 1 { assert(body_exact(ServeInner::Simple(res), ent, 0, elen)); } else { assert(body_once(ServeInner::Simple(res), None)); }
            assert(serve_post(ent, method, req, ServeInner::Simple(res)));
        }
        if let range::ResolvedRanges::Satisfiable(v) = range::rr(effective_range(ent, req), elen) {
            if v@.len() == 1 {
                let r = v@[0];
                assert(range.start == r.start && range.end == r.end);
                assert(res.v@.status == 206);
                assert(res.extra.entity_hdrs@ == !req.dom().contains(HeaderName::IF_RANGE));
                assert(res.v@.hdrs =~= common.push((HeaderName::CONTENT_RANGE, HV::Fmt("bytes {}-{}/{}"@, seq![r.start, (r.end - 1) as u64, elen])))
                                               .push((HeaderName::CONTENT_LENGTH, HV::Fmt("{}"@, seq![(r.end - r.start) as u64]))));
                assert(serve_post(ent, method, req, ServeInner::Simple(res)));
            } else {
                assert(serve_post(ent, method, req, ServeInner::Simple(res)));
            }
        }
        if range::rr(effective_range(ent, req), elen) is NotSatisfiable { assert(false); }
    }
    ServeInner::Simple(res)
}


} // verus!
fn main() {}
