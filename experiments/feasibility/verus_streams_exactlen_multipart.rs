use vstd::prelude::*;
use std::task::Poll;
use std::ops::Range;
verus! {

#[verifier::external_type_specification]
#[verifier::accept_recursive_types(T)]
pub struct ExPoll<T>(Poll<T>);

pub assume_specification<T: Default>[ std::mem::take::<T> ](x: &mut T) -> (r: T)
    ensures r == *old(x), *final(x) == dflt::<T>();
pub mod ax { use vstd::prelude::*; 
pub uninterp spec fn dflt<T>() -> T;
pub broadcast axiom fn dflt_u64() ensures #[trigger] dflt::<u64>() == 0u64;
pub broadcast axiom fn dflt_vec_u8() ensures (#[trigger] dflt::<Vec<u8>>())@ == Seq::<u8>::empty();
}
use ax::dflt;
broadcast use {ax::dflt_u64, ax::dflt_vec_u8};

pub trait Buf { spec fn rem(&self) -> nat; fn remaining(&self) -> (r: usize) ensures r == self.rem(); }

#[verifier::external_body]
#[verifier::reject_recursive_types(D)]
#[verifier::reject_recursive_types(E)]
pub struct Inner<D, E> { _d: std::marker::PhantomData<Box<(D, E)>> }

#[verifier::external_body]
#[verifier::reject_recursive_types(D)]
#[verifier::reject_recursive_types(E)]
pub struct EntityBox<D, E> { _d: std::marker::PhantomData<Box<(D, E)>> }
impl<D, E> EntityBox<D, E> {
    #[verifier::external_body]
    pub fn get_range(&self, r: Range<u64>) -> Inner<D, E> { unimplemented!() }
}

impl<D, E> Inner<D, E> {
    #[verifier::external_body]
    pub fn poll_next(&mut self) -> Poll<Option<Result<D, E>>> { unimplemented!() }
}

#[verifier::reject_recursive_types(D)]
#[verifier::reject_recursive_types(E)]
pub struct ExactLenStream<D, E> {
    stream: Inner<D, E>,
    remaining: u64,
}

#[verifier::external_body]
fn too_long<E>(extra: u64) -> E { unimplemented!() }
#[verifier::external_body]
fn too_short<E>(remaining: u64) -> E { unimplemented!() }

fn as_u64(len: usize) -> (r: u64) ensures r == len { len as u64 }

pub trait FromVec: Sized + Buf { fn from_vec(v: Vec<u8>) -> (r: Self) ensures r.rem() == v@.len(); 
    fn from_static(v: &'static [u8]) -> (r: Self) ensures r.rem() == v@.len(); }

impl<D: Buf, E> ExactLenStream<D, E> {
    fn new(len: u64, stream: Inner<D, E>) -> (r: Self) ensures r.remaining == len {
        Self { stream, remaining: len }
    }
    fn poll_next(&mut self) -> (r: Poll<Option<Result<D, E>>>)
        ensures
            match r {
                Poll::Ready(Some(Ok(d))) => d.rem() <= old(self).remaining && final(self).remaining == old(self).remaining - d.rem(),
                Poll::Ready(Some(Err(_))) => final(self).remaining == old(self).remaining || final(self).remaining == 0,
                Poll::Ready(None) => old(self).remaining == 0 && final(self).remaining == 0,
                Poll::Pending => final(self).remaining == old(self).remaining,
            }
    {
        let this = self;
        match this.stream.poll_next() {
            Poll::Ready(Some(Ok(d))) => {
                let d_len = as_u64(d.remaining());
                let new_rem = this.remaining.checked_sub(d_len);
                if let Some(new_rem) = new_rem {
                    this.remaining = new_rem;
                    Poll::Ready(Some(Ok(d)))
                } else {
                    let remaining = std::mem::take(&mut this.remaining); // fuse.
                    Poll::Ready(Some(Err(too_long(d_len - remaining))))
                }
            }
            Poll::Ready(Some(Err(e))) => Poll::Ready(Some(Err(e))),
            Poll::Ready(None) => {
                if this.remaining != 0 {
                    let remaining = std::mem::take(&mut this.remaining); // fuse.
                    return Poll::Ready(Some(Err(too_short(remaining))));
                }
                Poll::Ready(None)
            }
            Poll::Pending => Poll::Pending,
        }
    }
}

pub const PART_TRAILER_LEN: usize = 9;

#[verifier::reject_recursive_types(D)]
#[verifier::reject_recursive_types(E)]
pub struct MultipartStream<D, E> {
    cur: Option<ExactLenStream<D, E>>,
    state: usize,
    part_headers: Vec<Vec<u8>>,
    ranges: Vec<Range<u64>>,
    entity: EntityBox<D, E>,
    remaining: u64,
}

pub open spec fn rest(ph: Seq<Vec<u8>>, rg: Seq<Range<u64>>, i: int) -> int
    decreases rg.len() - i
{
    if i >= rg.len() || i < 0 { 9 } else { ph[i]@.len() + (rg[i].end - rg[i].start) + rest(ph, rg, i + 1) }
}

pub proof fn lemma_rest_nonneg(ph: Seq<Vec<u8>>, rg: Seq<Range<u64>>, i: int)
    requires forall|j: int| 0 <= j < rg.len() ==> (#[trigger] rg[j]).start <= rg[j].end,
    ensures rest(ph, rg, i) >= 9,
    decreases rg.len() - i
{
    if i >= rg.len() || i < 0 {} else { lemma_rest_nonneg(ph, rg, i + 1); }
}

pub proof fn lemma_rest_frame(ph1: Seq<Vec<u8>>, ph2: Seq<Vec<u8>>, rg: Seq<Range<u64>>, i: int)
    requires ph1.len() == ph2.len(), ph1.len() == rg.len(), forall|j: int| i <= j < ph1.len() ==> ph1[j] == ph2[j],
    ensures rest(ph1, rg, i) == rest(ph2, rg, i),
    decreases rg.len() - i
{
    if i >= rg.len() || i < 0 {} else { lemma_rest_frame(ph1, ph2, rg, i + 1); }
}

pub proof fn lemma_bits(x: usize)
    ensures x >> 1 == x / 2, (x & 1) == x % 2, x < 0x1000_0000 ==> (x << 1 | 1) == 2 * x + 1,
{
    assert(x >> 1 == x / 2) by (bit_vector);
    assert((x & 1) == x % 2) by (bit_vector);
    assert(x < 0x1000_0000 ==> (x << 1 | 1) == 2 * x + 1) by (bit_vector);
}

impl<D: FromVec, E> MultipartStream<D, E> {
    pub closed spec fn wf(&self) -> bool {
        let n = self.ranges@.len();
        &&& self.part_headers@.len() == n
        &&& n < 0x1000_0000
        &&& forall|j: int| 0 <= j < n ==> (#[trigger] self.ranges@[j]).start <= self.ranges@[j].end
        &&& self.state <= 2 * n + 1
        &&& (self.cur.is_some() ==> self.state % 2 == 1 && self.state / 2 < n)
        &&& self.remaining as int == self.owed()
    }
    pub closed spec fn owed(&self) -> int {
        let n = self.ranges@.len() as int;
        let i = (self.state / 2) as int;
        if self.state == 2 * n + 1 { 0 }
        else if self.state == 2 * n { 9 }
        else if self.state % 2 == 0 { rest(self.part_headers@, self.ranges@, i) }
        else { (if self.cur.is_some() { self.cur.unwrap().remaining as int } else { self.ranges@[i].end - self.ranges@[i].start }) + rest(self.part_headers@, self.ranges@, i + 1) }
    }

    fn poll_next(&mut self) -> (r: Poll<Option<Result<D, E>>>)
        requires old(self).wf(),
        ensures final(self).wf(),
            match r {
                Poll::Ready(Some(Ok(d))) => d.rem() <= old(self).remaining && final(self).remaining == old(self).remaining - d.rem(),
                Poll::Ready(Some(Err(_))) => final(self).remaining == 0,
                Poll::Ready(None) => old(self).remaining == 0 && final(self).remaining == 0,
                Poll::Pending => final(self).remaining == old(self).remaining,
            }
    {
        let this = self;
        loop
            invariant this.wf(), this.remaining == old(self).remaining, *final(this) == *final(self),
            decreases 2 * this.ranges@.len() + 1 - this.state, (if this.cur.is_some() { 0int } else { 1int }),
        {
            proof { lemma_bits(this.state); lemma_bits(this.ranges.len()); lemma_rest_nonneg(this.part_headers@, this.ranges@, (this.state / 2) as int + 1); lemma_rest_nonneg(this.part_headers@, this.ranges@, (this.state / 2) as int); }
            let ghost pre_state = this.state; let ghost pre_cur = this.cur; let ghost pre_rem = this.remaining; let ghost pre_rg = this.ranges@; let ghost pre_ph = this.part_headers@;
            if let Some(ref mut cur) = this.cur {
                match cur.poll_next() {
                    Poll::Ready(Some(Ok(d))) => {
                        this.remaining -= as_u64(d.remaining());
                        return Poll::Ready(Some(Ok(d)));
                    }
                    Poll::Ready(Some(Err(e))) => {
                        // Fuse.
                        this.remaining = 0;
                        this.state = this.ranges.len() << 1 | 1;
                        return Poll::Ready(Some(Err(e)));
                    }
                    Poll::Ready(None) => {
                        this.cur = None;
                        this.state += 1;
                    }
                    Poll::Pending => { 
                        assert(this.cur.is_some());
                        assert(this.cur.unwrap().remaining == pre_cur.unwrap().remaining);
                        assert(this.state == pre_state);
                        assert(this.ranges@ == pre_rg);
                        assert(this.part_headers@ == pre_ph);
                        assert(this.remaining == pre_rem);
                        assert(this.wf());
                        return Poll::Pending },
                }
            }

            proof { lemma_bits(this.state); }
            let i = this.state >> 1;
            let odd = (this.state & 1) == 1;
            if i == this.ranges.len() && odd {
                return Poll::Ready(None);
            }
            if i == this.ranges.len() {
                this.state += 1;
                this.remaining -= as_u64(PART_TRAILER_LEN);
                return Poll::Ready(Some(Ok(D::from_static(b"\r\n--B--\r\n"))));
            } else if odd {
                let r = &this.ranges[i];
                this.cur = Some(ExactLenStream::new(
                    r.end - r.start,
                    this.entity.get_range(r.clone()),
                ));
            } else {
                let ghost ph0 = this.part_headers@;
                let v = std::mem::take(&mut this.part_headers[i]);
                proof { lemma_rest_frame(ph0, this.part_headers@, this.ranges@, i as int + 1); lemma_rest_nonneg(ph0, this.ranges@, i as int + 1); }
                this.state += 1;
                this.remaining -= as_u64(v.len());
                return Poll::Ready(Some(Ok(D::from_vec(v))));
            };
        }
    }
}

} // verus!
fn main() {}
