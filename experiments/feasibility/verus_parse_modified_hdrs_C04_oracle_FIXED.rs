use vstd::prelude::*;
verus! {

pub mod stub {
    use vstd::prelude::*;
    #[derive(Clone, Copy)]
    pub struct SystemTime { pub secs: u64, pub nanos: u32 }
    pub open spec fn st_lt(a: SystemTime, b: SystemTime) -> bool { a.secs < b.secs || (a.secs == b.secs && a.nanos < b.nanos) }
    pub fn st_gt(a: &SystemTime, b: &SystemTime) -> (r: bool) ensures r == st_lt(*b, *a) { a.secs > b.secs || (a.secs == b.secs && a.nanos > b.nanos) }
    pub fn st_le(a: &SystemTime, b: &SystemTime) -> (r: bool) ensures r == !st_lt(*b, *a) { !(a.secs > b.secs || (a.secs == b.secs && a.nanos > b.nanos)) }

    pub struct Str { pub id: int }
    pub struct HeaderValue { pub id: int }
    pub uninterp spec fn hv_str(h: HeaderValue) -> Option<Str>;       // to_str(): None = not visible ASCII
    pub uninterp spec fn date_of(s: Str) -> Option<u64>;              // parse_http_date: whole seconds since epoch
    pub struct ToStrError;
    impl HeaderValue {
        #[verifier::external_body]
        pub fn to_str(&self) -> (r: Result<Str, ToStrError>) ensures r.is_ok() == hv_str(*self).is_some(), r matches Ok(s) ==> Some(s) == hv_str(*self) { unimplemented!() }
    }
    pub struct DateErr;
    #[verifier::external_body]
    pub fn parse_http_date(s: Str) -> (r: Result<SystemTime, DateErr>)
        ensures r.is_ok() == date_of(s).is_some(), r matches Ok(t) ==> t.secs == date_of(s).unwrap() && t.nanos == 0
    { unimplemented!() }

    #[derive(Clone, Copy, PartialEq, Eq)]
    pub enum HeaderName { IF_MATCH, IF_NONE_MATCH, IF_MODIFIED_SINCE, IF_UNMODIFIED_SINCE }
    pub mod header { pub use super::HeaderName::*; }
    pub struct HeaderMap { pub m: Ghost<Map<HeaderName, HeaderValue>> }
    impl HeaderMap {
        #[verifier::external_body]
        pub fn get(&self, k: HeaderName) -> (r: Option<&HeaderValue>)
            ensures r.is_some() == self.m@.dom().contains(k), r matches Some(v) ==> *v == self.m@[k]
        { unimplemented!() }
    }
}
use stub::*;

pub mod etag {
    use vstd::prelude::*;
    use super::stub::*;
    // abstract results of the tag-list comparisons (contracts of any_match / none_match, proved in V-cond's etag part)
    pub uninterp spec fn if_match_passes(etag: Option<HeaderValue>, v: HeaderValue) -> Result<bool, ()>;   // Err = unparseable list
    pub uninterp spec fn if_none_match_hits(etag: Option<HeaderValue>, v: HeaderValue) -> Option<bool>;     // None = corrupt list: header ignored
    #[verifier::external_body]
    pub fn any_match(etag: &Option<HeaderValue>, req_hdrs: &HeaderMap) -> (r: Result<bool, &'static str>)
        ensures !req_hdrs.m@.dom().contains(HeaderName::IF_MATCH) ==> r == Ok::<bool, &'static str>(true),
                req_hdrs.m@.dom().contains(HeaderName::IF_MATCH) ==> (r.is_ok() == if_match_passes(*etag, req_hdrs.m@[HeaderName::IF_MATCH]).is_ok()
                    && (r matches Ok(b) ==> Ok::<bool, ()>(b) == if_match_passes(*etag, req_hdrs.m@[HeaderName::IF_MATCH])))
    { unimplemented!() }
    #[verifier::external_body]
    pub fn none_match(etag: &Option<HeaderValue>, req_hdrs: &HeaderMap) -> (r: Option<bool>)
        ensures !req_hdrs.m@.dom().contains(HeaderName::IF_NONE_MATCH) ==> r.is_none(),
                req_hdrs.m@.dom().contains(HeaderName::IF_NONE_MATCH) ==> (match if_none_match_hits(*etag, req_hdrs.m@[HeaderName::IF_NONE_MATCH]) { Some(hit) => r == Some(!hit), None => r.is_none() })
    { unimplemented!() }
}

// ---- C04 oracle, written from the property statement (well-formed validators only) ----
pub open spec fn well_formed(etag: Option<HeaderValue>, h: Map<HeaderName, HeaderValue>) -> bool {
    &&& (h.dom().contains(HeaderName::IF_MATCH) ==> etag::if_match_passes(etag, h[HeaderName::IF_MATCH]).is_ok())
    &&& (h.dom().contains(HeaderName::IF_NONE_MATCH) ==> etag::if_none_match_hits(etag, h[HeaderName::IF_NONE_MATCH]).is_some())
    &&& (h.dom().contains(HeaderName::IF_UNMODIFIED_SINCE) ==> (hv_str(h[HeaderName::IF_UNMODIFIED_SINCE]) matches Some(s) && date_of(s).is_some()))
    &&& (h.dom().contains(HeaderName::IF_MODIFIED_SINCE) ==> (hv_str(h[HeaderName::IF_MODIFIED_SINCE]) matches Some(s) && date_of(s).is_some()))
}
pub open spec fn hdr_date(h: Map<HeaderName, HeaderValue>, k: HeaderName) -> u64 { date_of(hv_str(h[k]).unwrap()).unwrap() }
pub open spec fn cond_spec(etag: Option<HeaderValue>, h: Map<HeaderName, HeaderValue>, lm: Option<SystemTime>) -> (bool, bool) {
    let pf = if h.dom().contains(HeaderName::IF_MATCH) {
        etag::if_match_passes(etag, h[HeaderName::IF_MATCH]) != Ok::<bool, ()>(true)
    } else if h.dom().contains(HeaderName::IF_UNMODIFIED_SINCE) && lm.is_some() {
        hdr_date(h, HeaderName::IF_UNMODIFIED_SINCE) < lm.unwrap().secs       // earlier than the *second* of last modification
    } else { false };
    let nm = if h.dom().contains(HeaderName::IF_NONE_MATCH) {
        etag::if_none_match_hits(etag, h[HeaderName::IF_NONE_MATCH]) == Some(true)
    } else if h.dom().contains(HeaderName::IF_MODIFIED_SINCE) && lm.is_some() {
        lm.unwrap().secs <= hdr_date(h, HeaderName::IF_MODIFIED_SINCE)
    } else { false };
    (pf, nm)
}

fn parse_modified_hdrs(
    etag: &Option<HeaderValue>,
    req_hdrs: &HeaderMap,
    last_modified: Option<SystemTime>,
) -> (res: Result<(bool, bool), &'static str>)
    ensures well_formed(*etag, req_hdrs.m@) ==> res == Ok::<(bool, bool), &'static str>(cond_spec(*etag, req_hdrs.m@, last_modified))
{
    let precondition_failed = if !etag::any_match(etag, req_hdrs)? {
        true
    } else if req_hdrs.get(header::IF_MATCH).is_some() {
        false
    } else if let (Some(ref m), Some(since)) =
        (last_modified, req_hdrs.get(header::IF_UNMODIFIED_SINCE))
    {
        let m = &SystemTime { secs: m.secs, nanos: 0 };
        const ERR1: &'static str = "Unparseable If-Unmodified-Since";
        st_gt(&*m, &match (match parse_http_date(match since.to_str() { Ok(v) => v, Err(_e) => return Err(ERR1) }) { Ok(v) => Ok(v), Err(_e) => Err(ERR1) }) { Ok(v) => v, Err(e) => return Err(e) })
    } else {
        false
    };

    let not_modified = match etag::none_match(etag, req_hdrs) {
        Some(true) => false,

        Some(false) => true,

        None => {
            if let (Some(ref m), Some(since)) =
                (last_modified, req_hdrs.get(header::IF_MODIFIED_SINCE))
            {
                const ERR2: &'static str = "Unparseable If-Modified-Since";
                let m = &SystemTime { secs: m.secs, nanos: 0 };
                st_le(&*m, &match (match parse_http_date(match since.to_str() { Ok(v) => v, Err(_e) => return Err(ERR2) }) { Ok(v) => Ok(v), Err(_e) => Err(ERR2) }) { Ok(v) => v, Err(e) => return Err(e) })
            } else {
                false
            }
        }
    };
    Ok((precondition_failed, not_modified))
}
}
fn main() {}
