#![feature(allocator_api)]
use vstd::prelude::*;
verus! {
pub uninterp spec fn cap_of<T>(v: &Vec<T>) -> nat;
pub assume_specification<T, A: std::alloc::Allocator>[ Vec::<T, A>::capacity ](v: &Vec<T, A>) -> (r: usize)
    ensures r >= v@.len();
pub assume_specification<T, A: std::alloc::Allocator>[ Vec::<T, A>::reserve_exact ](v: &mut Vec<T, A>, n: usize)
    ensures final(v)@ == old(v)@;
fn t(v: &mut Vec<u8>, s: &[u8]) { let c = v.capacity(); v.reserve_exact(4); v.extend_from_slice(s); }
}
fn main() {}
