use vstd::prelude::*;
use std::ops::Range;
verus! {

fn a(ranges: &Vec<Range<u64>>) -> u64 {
    if ranges.len() == 1 { let range = &ranges[0]; range.start } else { 0 }
}

fn b(ranges: &Vec<Range<u64>>) -> Option<u64> {
    let mut acc_o: Option<u64> = Some(0u64);
    for r in ranges.iter() { if let Some(acc) = acc_o { acc_o = acc.checked_add(80).and_then(|a| a.checked_add(r.end - r.start)); } }
    acc_o
}

fn c(est_len: Option<u64>, len: u64) -> bool {
    matches!(est_len, Some(l) if l < len)
}

fn d(x: bool) -> Option<u64> {
    x.then(|| { let mut h = 3u64; h = h + 1; h })
}

} // verus!
fn main() {}
