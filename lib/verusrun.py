"""Run Verus on an extracted unit and classify its output into named obligations."""
import json
import os
import re
import subprocess
import time

import extract

VERIF = extract.VERIF

VERIF_FAIL = [
    ("postcondition not satisfied", "post"),
    ("precondition not satisfied", "pre"),
    ("index in bounds", "index"),
    ("precondition not met", "pre"),
    ("assertion failed", "assert"),
    ("possible arithmetic underflow/overflow", "arith"),
    ("possible division by zero", "div0"),
    ("invariant not satisfied before loop", "inv_entry"),
    ("invariant not satisfied at end of loop body", "inv_preserve"),
    ("loop invariant not preserved", "inv_preserve"),
    ("loop invariant not satisfied", "inv_preserve"),
    ("decreases not satisfied", "decreases"),
    ("possible bit shift underflow/overflow", "shift"),
    ("unreachable code may be reached", "unreachable"),   # unreachable!() / panics
    ("recursive function precondition", "pre"),
    ("could not prove termination", "decreases"),
    ("call to function may not terminate", "decreases"),
    ("cannot show invariant holds", "inv_preserve"),
    ("constructed value may fail to meet its declared type invariant", "type_inv"),
]
RLIMIT = ("Resource limit (rlimit) exceeded", "while loop: Resource limit")

TAG_RE = re.compile(r"/\*@\s*([C0-9, ]+?)\s*(?:#(\w+))?\s*(?:unless=(\w+))?\s*(shared)?\s*\*/")


def _norm(s, n=70):
    s = " ".join(s.split())
    return s if len(s) <= n else s[:n - 3] + "..."


import threading
_EXTRACT_LOCK = threading.Lock()


class UnitResult:
    def __init__(self, name):
        self.name = name
        self.status = "ok"           # ok | fail | inconclusive
        self.reason = None
        self.failures = []           # obligation dicts
        self.fn_results = {}         # verus fn name -> dict(success,time_us,rlimit,mode)
        self.verified = 0
        self.errors = 0
        self.wall_s = 0.0
        self.smt_ms = 0
        self.cmd = ""
        self.unit = None
        self.canaries_ok = True
        self.raw_stderr = ""
        self.degraded = []           # lost overlay hints: failures of this unit need a reproduced input before they count

    def to_json(self):
        return {k: getattr(self, k) for k in ("name", "status", "reason", "failures", "verified", "errors", "wall_s", "smt_ms", "cmd")}


def _fn_of_line(unit, line):
    for f in unit.fns + unit.lemmas:
        if f["out_first"] <= line <= f["out_last"]:
            return f
    return None


_SRC_CACHE = {}


def _is_overlay_text(unit, span, snippet):
    """True if the failing assertion text does not occur in the original source line (i.e. it was spliced in)."""
    line = span["line_start"]
    if not (1 <= line <= len(unit.map)):
        return False
    o = unit.map[line - 1]
    if o.get("kind") != "src":
        return False
    path = os.path.join(getattr(unit, "repo", None) or extract.REPO, o["file"])
    try:
        if path not in _SRC_CACHE:
            _SRC_CACHE[path] = open(path).read().split("\n")
        src_line = _SRC_CACHE[path][o["line"] - 1]
    except Exception:
        return False
    inner = snippet.strip()
    return inner not in src_line and inner.replace(" ", "") not in src_line.replace(" ", "")


def _is_hint_text(fn, snippet):
    """True if the failing assert / call is part of a proof hint spliced in by the overlay (not code from /repo)."""
    sn = " ".join(snippet.split())
    if not sn:
        return False
    for ins in fn.get("inserts", []):
        if sn in " ".join(ins["text"].split()):
            return True
    return False


def _canary_of_line(unit, line):
    for c in unit.canaries:
        if c["out_first"] <= line <= c["out_last"]:
            return c
    return None


def _origin(unit, line):
    if 1 <= line <= len(unit.map):
        o = unit.map[line - 1]
        return "%s:%d" % (o.get("file", "?"), o.get("line", 0))
    return "?"


def run_unit(name, repo=None, rlimit=None, outdir=None, extra_args=(), solver=None):
    res = UnitResult(name)
    t0 = time.time()
    try:
        with _EXTRACT_LOCK:      # the extractor keeps per-extraction global state (generated literals): one at a time
            unit = extract.extract_unit(name, repo)
            _pre_path = extract.write_unit(unit, outdir or os.path.join(VERIF, "build"))
    except extract.Inconclusive as e:
        res.status, res.reason = "inconclusive", str(e)
        res.wall_s = time.time() - t0
        return res
    except Exception as e:  # tokenizer crash etc.: never an alarm
        res.status, res.reason = "inconclusive", "extractor error: %r" % (e,)
        res.wall_s = time.time() - t0
        return res
    res.unit = unit
    res.degraded = list(unit.lost_hints)
    res.outside_reading = list(getattr(unit, "outside_reading", []))
    outdir = outdir or os.path.join(VERIF, "build")
    path = _pre_path
    cmd = ["verus", os.path.basename(path), "--output-json", "--time", "--error-format=json",
           "--multiple-errors", "10", "--rlimit", str(rlimit or 30), "--num-threads", "4"]
    if solver == "cvc5":
        cmd += ["-V", "cvc5"]
    cmd += list(extra_args)
    res.cmd = " ".join(cmd)
    env = dict(os.environ)
    p = subprocess.run(cmd, cwd=outdir, stdout=subprocess.PIPE, stderr=subprocess.PIPE, text=True, env=env)
    res.raw_stderr = p.stderr
    res.wall_s = time.time() - t0
    out = None
    try:
        out = json.loads(p.stdout)
    except Exception:
        pass
    diags = []
    for ln in p.stderr.splitlines():
        ln = ln.strip()
        if ln.startswith("{"):
            try:
                diags.append(json.loads(ln))
            except Exception:
                pass
    # function breakdown
    if out:
        vr = out.get("verification-results", {})
        res.verified, res.errors = vr.get("verified", 0), vr.get("errors", 0)
        smt = out.get("times-ms", {}).get("smt", {})
        res.smt_ms = smt.get("smt-run", 0)
        for m in smt.get("smt-run-module-times", []):
            for fb in m.get("function-breakdown", []):
                res.fn_results[fb["function"]] = {"success": fb.get("success"), "time_us": fb.get("time-micros"), "rlimit": fb.get("rlimit"), "mode": fb.get("mode:")}
    hard = []
    canary_hits = {}
    for d in diags:
        if d.get("level") != "error":
            continue
        msg = d.get("message", "")
        if msg.startswith("aborting due to"):
            continue
        spans = [s for s in d.get("spans", []) if os.path.basename(s.get("file_name", "")) == os.path.basename(path)]
        kind = None
        for pat, k in VERIF_FAIL:
            if pat in msg:
                kind = k
                break
        if any(r in msg for r in RLIMIT):
            lines = [s["line_start"] for s in spans]
            can = [_canary_of_line(unit, l) for l in lines]
            if any(can):
                for c in can:
                    if c:
                        canary_hits[c["name"]] = canary_hits.get(c["name"], 0) + 1
                continue
            hard.append("rlimit: " + _norm(d.get("rendered", msg), 200))
            continue
        if kind is None:
            hard.append(_norm(d.get("rendered", msg), 400))
            continue
        prim = [s for s in spans if s.get("is_primary")] or spans
        if not prim:
            hard.append("verification failure without span in unit: " + _norm(d.get("rendered", msg), 300))
            continue
        ps = prim[0]
        # canary?
        lines = [s["line_start"] for s in spans]
        can = [c for c in (_canary_of_line(unit, l) for l in lines) if c]
        if can:
            for c in can:
                canary_hits[c["name"]] = canary_hits.get(c["name"], 0) + 1
            continue
        fn = None
        site_line = None
        for s in [ps] + spans:
            fn = _fn_of_line(unit, s["line_start"])
            if fn:
                break
            # a failure inside a macro body (prelude macro_rules!): follow the expansion chain to the call site
            e = s.get("expansion")
            while e and not fn:
                cs = e.get("span") or {}
                if cs.get("line_start"):
                    fn = _fn_of_line(unit, cs["line_start"])
                    if fn:
                        site_line = cs["line_start"]
                e = cs.get("expansion")
            if fn:
                break
        # tags: nearest /*@..*/ before the highlight on the primary line
        tags, label, unless, shared = None, None, None, False
        hint_fail = False
        for s in [ps] + [x for x in spans if x is not ps]:
            txt = s["text"][0]["text"] if s.get("text") else ""
            hs = s["text"][0]["highlight_start"] - 1 if s.get("text") else 0
            best = None
            for m in TAG_RE.finditer(txt):
                if m.start() <= hs:
                    best = m
            if best and (hs - best.end()) < 4:
                tags = [t.strip() for t in best.group(1).split(",") if t.strip()]
                label = best.group(2)
                unless = best.group(3)
                shared = bool(best.group(4))
                break
        snippet = ""
        if ps.get("text"):
            t0_ = ps["text"][0]
            snippet = t0_["text"][t0_["highlight_start"] - 1:t0_["highlight_end"] - 1]
            if len(ps["text"]) > 1:
                snippet += " ..."
        explicit = kind in ("post", "inv_entry", "inv_preserve", "decreases") or (kind == "pre" and tags)
        if tags is None and kind in ("assert", "pre") and fn is not None and _is_hint_text(fn, snippet):
            # a proof hint spliced in by the overlay failed: every clause of the function may lean on it
            tags = list(fn["props"])
            label = "hint:" + _norm(snippet, 50)
            hint_fail = True
        if tags is None:
            if fn is None:
                tags = []
            elif kind in ("post", "inv_entry", "inv_preserve", "decreases"):
                tags = list(fn["props"])
            else:
                tags = list(fn.get("implicit") or fn["props"])
                for rg in fn.get("implicit_regions", []):
                    if rg["first"] <= ps["line_start"] <= rg["last"]:
                        tags = sorted(set(tags) | set(rg["tags"]))
        exit_loc = None
        for s in spans:
            if s is not ps and s.get("label"):
                exit_loc = "%s (%s)" % (_origin(unit, s["line_start"]), s["label"])
        ob = {
            "unit": name,
            "fn": fn["qual"] if fn else None,
            "kind": kind,
            "label": label or _norm(snippet, 60),
            "id": "%s::%s::%s::%s" % (name, fn["qual"] if fn else "?", kind, label or _norm(snippet, 60)),
            "tags": tags,
            "unless": unless,
            "shared": shared,
            "hint_fail": hint_fail,
            "snippet": snippet,
            "message": msg,
            "at": _origin(unit, site_line or ps["line_start"]),
            "exit": exit_loc,
            "unit_line": ps["line_start"],
            "rendered": d.get("rendered", ""),
        }
        res.failures.append(ob)
    for ms in unit.missing:
        res.failures.append({"unit": name, "fn": ms["qual"], "kind": "missing_fn", "label": "exists",
                             "id": "%s::%s::missing_fn::exists" % (name, ms["qual"]), "tags": list(ms["props"]),
                             "message": "the contract requires %s (%s) but %s has no such function: %s" % (ms["qual"], " :: ".join(ms["path"]), ms["file"], ms["what"]),
                             "at": "%s:%d" % (ms["tmpl"], ms["tmpl_line"]), "exit": None, "unit_line": 0,
                             "rendered": "obligation `%s exists` failed: no item `%s` in %s" % (ms["qual"], " :: ".join(ms["path"]), ms["file"])})
    # canary accounting: every canary must have failed
    for c in unit.canaries:
        if canary_hits.get(c["name"], 0) == 0:
            res.canaries_ok = False
            hard.append("vacuity: canary %s (requires of %s, `ensures false`) was NOT refuted - precondition contradictory?" % (c["name"], c["for"]))
    if out is None and not diags:
        hard.append("verus produced no parsable output: " + _norm(p.stderr, 300))
    if out is not None and out.get("verification-results", {}).get("encountered-vir-error"):
        hard.append("verus reported a VIR (non-verification) error")
    # every //@fn function must have been checked by the solver or appear as verified
    if out is not None and not hard:
        names = set(res.fn_results)
        for f in unit.fns:
            suffix = "::" + f["qual"]
            if not any(n.endswith(suffix) for n in names):
                hard.append("vacuity: function %s has no verification query" % f["qual"])
    # ---- hint-free re-verification: a failing overlay hint is dropped and every clause of the function is re-checked
    #      on its own without it; only the clauses that then fail are violations (the hint itself is not an obligation).
    hint_obs = [ob for ob in res.failures if ob.get("hint_fail")]
    if out is not None and hint_obs and os.environ.get("VERIF_NO_SPLIT") != "1":
        drop = set()
        for ob in hint_obs:
            f = next((x for x in unit.fns if x["qual"] == ob["fn"]), None)
            if f:
                for ins in f.get("inserts", []):
                    if ob["snippet"].strip() and ob["snippet"].strip() in ins["text"]:
                        drop.add((f["qual"], ins["tl"]))
        if drop:
            try:
                with _EXTRACT_LOCK:
                    unit2 = extract.extract_unit(name, repo, drop=drop)
                    unit2.name = name + "_nohint"
                    path2 = extract.write_unit(unit2, outdir)
                fns2 = set(q for q, _ in drop)
                sf, srl = _split_run(unit2, path2, outdir, fns2, rlimit, single_ok=True)
                if sf is not None and _SPLIT_DIRTY:
                    # without the hint the function does not compile, or something other than a postcondition fails (a loop
                    # invariant, a callee precondition): the hint-free runs decide nothing - keep the hint failure itself,
                    # which is reported for every property the function carries
                    for ob in hint_obs:
                        ob["message"] += " (hint-free re-verification undecided: %s)" % "; ".join(_SPLIT_DIRTY[:2])
                elif sf is not None:
                    for x in sf:
                        x["unit"] = name
                        x["id"] = x["id"].replace(name + "_nohint::", name + "::", 1)
                        x["message"] += " (re-verified without the overlay hint `%s` that no longer holds)" % _norm(hint_obs[0]["snippet"], 60)
                    res.failures = [ob for ob in res.failures if not ob.get("hint_fail")] + sf
                    hard.extend(srl)
            except extract.Inconclusive:
                pass
    # ---- split attribution: one run per tagged ensures clause of every function that failed or hit the rlimit
    if out is not None and os.environ.get("VERIF_NO_SPLIT") != "1":
        # any failure in a function may mask later ones (Verus stops after --multiple-errors): re-check every clause alone
        need = set(ob["fn"] for ob in res.failures if ob["fn"] and not ob.get("hint_fail"))
        for h in hard:
            if h.startswith("rlimit"):
                for f in unit.fns:
                    if any(("fn %s" % f["name"]) in ln for ln in unit.out_lines[f["out_first"] - 1:f["body_out_first"]]) and f["name"] in h:
                        need.add(f["qual"])
                if not need:
                    need.update(f["qual"] for f in unit.fns)
        split_fail, split_rl = _split_run(unit, path, outdir, need, rlimit)
        if split_fail is not None:
            covered = set(_SPLIT_COVERED)
            hard = [h for h in hard if not h.startswith("rlimit")]
            res.failures = [ob for ob in res.failures if not (ob["kind"] == "post" and ob["fn"] in covered)] + split_fail
            hard.extend(split_rl)
    if hard:
        res.status, res.reason = "inconclusive", "; ".join(hard[:4])
    elif res.failures:
        res.status = "fail"
    else:
        res.status = "ok"
    return res


def _clause_spans(unit, f):
    """(label, tags, first_line, last_line) of each tagged ensures clause in the signature region of fn f (1-based, inclusive)."""
    cl = [c for c in unit.clauses if c["fn"] == f["qual"] and f["out_first"] <= c["out_line"] < f["body_out_first"]]
    cl.sort(key=lambda c: c["out_line"])
    spans = []
    for i, c in enumerate(cl):
        last = (cl[i + 1]["out_line"] - 1) if i + 1 < len(cl) else f["body_out_first"] - 1
        spans.append((c["label"], c["tags"], c["out_line"], last, (c.get("unless"), c.get("shared"))))
    return spans


_SPLIT_COVERED = []
_SPLIT_DIRTY = []


def _split_run(unit, path, outdir, fn_quals, rlimit, single_ok=False):
    import concurrent.futures as cf
    jobs = []
    del _SPLIT_COVERED[:]
    del _SPLIT_DIRTY[:]
    for f in unit.fns:
        if f["qual"] not in fn_quals:
            continue
        spans = _clause_spans(unit, f)
        if len(spans) < 2 and not (single_ok and spans):
            continue
        _SPLIT_COVERED.append(f["qual"])
        for k, (label, tags, a, b, unless) in enumerate(spans):
            lines = list(unit.out_lines)
            for j, (_, _, a2, b2, _u) in enumerate(spans):
                if j != k:
                    for ln in range(a2, b2 + 1):
                        # blank the clause but keep a trailing token structure: clauses end with ',' so removal is safe
                        lines[ln - 1] = ""
            vpath = os.path.join(outdir, "%s_split_%s_%d.rs" % (unit.name, f["name"], k))
            with open(vpath, "w") as fh:
                fh.write("\n".join(lines))
            jobs.append((f, label, tags, a, vpath, unless))
    if not jobs:
        return None, []

    def run(job):
        f, label, tags, a, vpath, unless = job
        cmd = ["verus", os.path.basename(vpath), "--error-format=json", "--multiple-errors", "6", "--rlimit", str((rlimit or 30) * 2), "--num-threads", "2"]
        p = subprocess.run(cmd, cwd=outdir, stdout=subprocess.PIPE, stderr=subprocess.PIPE, text=True)
        failed, rl, rendered, exit_loc = False, False, "", None
        for ln in p.stderr.splitlines():
            if not ln.startswith("{"):
                continue
            try:
                d = json.loads(ln)
            except Exception:
                continue
            if d.get("level") != "error":
                continue
            msg = d.get("message", "")
            spans = d.get("spans", [])
            lines_ = [s_["line_start"] for s_ in spans]
            if not msg.startswith("aborting due to") and not any(pat in msg for pat, _k in VERIF_FAIL) and not any(r in msg for r in RLIMIT):
                _SPLIT_DIRTY.append("%s: %s" % (f["qual"], _norm(msg, 120)))      # the variant does not even compile: nothing was decided
            if not any(f["out_first"] <= l <= f["out_last"] for l in lines_):
                continue
            if any(r in msg for r in RLIMIT):
                rl = True
            elif "postcondition not satisfied" in msg and any(l == a or (a <= l) for l in lines_):
                failed = True
                rendered = d.get("rendered", "")
                for s_ in spans:
                    if not s_.get("is_primary") and s_.get("label"):
                        exit_loc = "%s (%s)" % (_origin(unit, s_["line_start"]), s_["label"])
            elif any(pat in msg for pat, _k in VERIF_FAIL):
                _SPLIT_DIRTY.append("%s: %s" % (f["qual"], _norm(msg, 120)))      # an invariant / precondition / assertion of the function fails
        try:
            os.remove(vpath)
        except OSError:
            pass
        return job, failed, rl, rendered, exit_loc

    fails, rls = [], []
    with cf.ThreadPoolExecutor(max_workers=8) as ex:
        for job, failed, rl, rendered, exit_loc in ex.map(run, jobs):
            f, label, tags, a, vpath, unless = job
            if failed:
                fails.append({"unit": unit.name, "fn": f["qual"], "kind": "post", "label": label,
                              "id": "%s::%s::post::%s" % (unit.name, f["qual"], label), "tags": tags, "unless": unless[0], "shared": bool(unless[1]),
                              "message": "postcondition not satisfied (clause verified in isolation)", "at": _origin(unit, a),
                              "exit": exit_loc, "unit_line": a, "rendered": rendered})
            elif rl:
                rls.append("rlimit: clause %s of %s (split run)" % (label, f["qual"]))
    return fails, rls
