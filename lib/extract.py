"""Mechanical extraction of real function bodies from /repo into a Verus unit file.

A unit template (units/<unit>.rs) is ordinary Verus text plus directives:

  //@include <path relative to /verif>
  //@item <file> :: <selector> [rules=R3,R4]
  //@fn <file> :: <selector> [:: <selector>] [props=C01,C07] [implicit=C13] [rules=R1,R2] [drop=cx] [add=log]
  <overlay signature + requires/ensures, Verus syntax>
  //@body
  //@ loop 1: invariant ..., decreases ...
  //@ before "<anchor text>": proof { ... }
  //@ after "<anchor text>": ...
  //@ at_start: ...      //@ at_end: ...
  //@end

Everything between `//@body` and `//@end` is replaced by the body text of the named function as it stands
in /repo's working tree, passed through the named rewrite rules (rules.py) and with the overlay's loop
invariants / proof hints spliced in at the named places.  Nothing else of the function is typed by hand.
"""
import hashlib
import json
import os
import re
import sys

from rstok import tokenize, find_item, fn_params, match_close, LexError
import rules as rulesmod

VERIF = os.path.dirname(os.path.dirname(os.path.abspath(__file__)))
REPO = os.environ.get("VERIF_REPO", "/repo")


class Inconclusive(Exception):
    """Lost anchor / unsupported shape: never a violation."""


def sha(s):
    return hashlib.sha256(s.encode()).hexdigest()[:16]


def _parse_kv(parts):
    kv = {}
    rest = []
    for p in parts:
        if "=" in p and re.match(r"^[a-z_]+=", p):
            k, v = p.split("=", 1)
            kv[k] = v
        else:
            rest.append(p)
    return kv, rest


def _parse_target(spec):
    """'src/body.rs :: impl Stream for ExactLenStream :: fn poll_next props=.. rules=..'"""
    segs = [s.strip() for s in spec.split("::")]
    last = segs[-1].split()
    kv, rest = _parse_kv(last)
    segs[-1] = " ".join(rest)
    return segs[0], segs[1:], kv


def _line_of(src, off):
    return src.count("\n", 0, off) + 1


def _keep_lines(old, new):
    """Make `new` span the same number of lines as `old` so the line map stays exact."""
    d = old.count("\n") - new.count("\n")
    if d > 0:
        return new + "\n" * d
    if d < 0:
        # squash surplus newlines into spaces, from the end
        parts = new.split("\n")
        keep = old.count("\n")
        head = parts[:keep + 1]
        head[-1] = head[-1] + " " + " ".join(p.strip() for p in parts[keep + 1:])
        return "\n".join(head)
    return new


def _loops(body):
    """Offsets (into body) of the '{' opening each loop body, in source order of the loop keyword."""
    toks = tokenize(body)
    out = []
    for i, t in enumerate(toks):
        if t.kind == "id" and t.text in ("loop", "while", "for"):
            if t.text == "for" and i > 0 and toks[i - 1].kind == "id" and toks[i - 1].text in ("impl",):
                continue
            # find the '{' that opens the loop body: first '{' at bracket depth 0 after the keyword
            j = i + 1
            ok = False
            while j < len(toks):
                tj = toks[j]
                if tj.text == "{":
                    # `while let Some(x) = S { .. }` struct-literal braces are not allowed in loop heads
                    ok = True
                    break
                if tj.text in ("(", "["):
                    j = match_close(toks, j)
                if tj.text == ";":
                    break
                j += 1
            if ok:
                out.append((t.text, toks[j].start))
    return out


class Unit:
    def __init__(self, name):
        self.name = name
        self.out_lines = []
        self.map = []          # per output line: dict(kind=tmpl|src|gen, ...)
        self.fns = []          # function records
        self.items = []
        self.rule_counts = {}
        self.includes = []
        self.lemmas = []       # template-level proof fns registered with //@lemma
        self.canaries = []     # generated `requires P ensures false` vacuity canaries (must fail)
        self.clauses = []      # tagged contract clauses: dict(fn, tags, label, out_line)
        self.missing = []      # functions the contract requires to exist but that are absent from the source
        self.outside_reading = []   # functions whose contract rests on a reading (R4 atomicity) their current shape falls outside of
        self.lost_regions = []  # implicit-tag refinements whose anchor is gone (harmless: function-level tags apply)
        self.lost_hints = []   # overlay proof hints / invariants whose anchor statement no longer exists (unit is "degraded")

    def emit(self, text, origin):
        for k, ln in enumerate(text.split("\n")):
            self.out_lines.append(ln)
            o = dict(origin)
            if o.get("kind") == "src":
                o["line"] = o["line0"] + k
            elif o.get("kind") == "tmpl":
                o["line"] = o["line0"] + k
            self.map.append(o)


STD_RULES = ["R7", "R20", "R27", "R29", "R30", "R31", "R35", "R37", "R38", "R39", "R40"]   # definitional unfoldings of std combinators, safe to apply anywhere


ALWAYS_RULES = ["R40", "R38", "R29", "R35", "R42", "R43", "R46", "R47", "R39"]   # closure-parameter renaming, unwrap_or_else, bool::then, get_or_insert_with, is_some_and: type-agnostic


def apply_rules(text, names, unit, where):
    names = [n for n in names if n]
    if "STD" in names:
        names = [n for n in names if n != "STD"] + [r for r in STD_RULES if r not in names]
    # rewrites that do not depend on the receiver's type apply to every extracted body
    names = names + [r for r in ALWAYS_RULES if r not in names]
    for r in names:
        if not r:
            continue
        fn = rulesmod.RULES.get(r)
        if fn is None:
            raise Inconclusive("unknown rule %s (%s)" % (r, where))
        new, n = fn(text)
        unit.rule_counts[r] = unit.rule_counts.get(r, 0) + n
        text = new
    return text


def _check_trait_impls(unit, srcs):
    """A trait impl (Drop, Write, Stream, From, ...) is invoked implicitly: one that the pinned tree did not have is code no
    contract of the unit speaks about.  The unit's properties are then handed to the native stand-in (exit 2 unless that
    finds a failing input); impls that disappeared are the business of the `//@fn` anchors."""
    from rstok import parse_items
    try:
        base = json.load(open(os.path.join(VERIF, "units", "trait_impls_baseline.json")))
    except Exception:
        return
    for f, src in srcs.items():
        try:
            items = parse_items(src)
        except LexError:
            continue
        cur = []

        def walk(its):
            for it in its:
                if it.kind == "impl" and it.trait:
                    cur.append("%s for %s" % (it.trait, it.name))
                if it.kind == "mod" and it.sub and it.name != "tests":
                    walk(it.sub)
        walk(items)
        have = list(base.get(f, []))
        for c in cur:
            if c in have:
                have.remove(c)
            else:
                props = sorted(set(p for fr in unit.fns if fr["file"] == f for p in fr["props"]))
                unit.lost_hints.append("new trait impl `%s` in %s is not under contract" % (c, f))
                unit.outside_reading.append({"fn": c, "props": props, "why": "%s gained `impl %s`, which is invoked implicitly and is under no contract of unit %s" % (f, c, unit.name)})


def extract_unit(name, repo=None, drop=None):
    """drop: set of (fn qual, template line) of overlay directives to leave out (hint-free re-verification)."""
    repo = repo or REPO
    tpath = os.path.join(VERIF, "units", name + ".rs")
    unit = Unit(name)
    unit.repo = repo
    unit.drop = set(drop or ())
    rulesmod.LITS.clear()
    _process(unit, tpath, repo)
    _check_trait_impls(unit, getattr(unit, "srcs_read", {}))
    return unit


def _read_directive_block(lines, i):
    """lines[i] starts a directive; join `//@ |` continuation lines. returns (text, next_i)."""
    text = lines[i].strip()[3:].strip()
    j = i + 1
    while j < len(lines) and lines[j].strip().startswith("//@ |"):
        text += " " + lines[j].strip()[5:].strip()
        j += 1
    return text, j


def _process(unit, tpath, repo):
    rel = os.path.relpath(tpath, VERIF)
    lines = open(tpath).read().split("\n")
    i = 0
    srcs = {}

    def src_of(f):
        if f not in srcs:
            p = os.path.join(repo, f)
            if not os.path.exists(p):
                raise Inconclusive("source file %s missing" % f)
            srcs[f] = open(p).read()
            if not hasattr(unit, "srcs_read"):
                unit.srcs_read = {}
            unit.srcs_read[f] = srcs[f]
        return srcs[f]

    cur_fn = None
    while i < len(lines):
        ln = lines[i]
        s = ln.strip()
        if s.startswith("//@include "):
            inc = os.path.join(VERIF, s.split(None, 1)[1].strip())
            unit.includes.append(os.path.relpath(inc, VERIF))
            _process(unit, inc, repo)
            i += 1
            continue
        if s.startswith("//@item "):
            f, path, kv = _parse_target(s[len("//@item "):])
            src = src_of(f)
            try:
                it = find_item(src, path)
            except LexError as e:
                raise Inconclusive("cannot tokenize %s: %s" % (f, e))
            if it is None or isinstance(it, tuple):
                raise Inconclusive("lost anchor: item %s :: %s" % (f, " :: ".join(path)))
            start = it.kw_start if hasattr(it, "kw_start") else it.start
            text = src[start:it.end]
            orig = text
            text = apply_rules(text, kv.get("rules", "").split(","), unit, "%s::%s" % (f, path))
            text = _keep_lines(orig, text)
            vis = kv.get("vis", "pub")
            unit.items.append({"file": f, "path": path, "lines": [_line_of(src, start), _line_of(src, it.end)], "sha256": sha(orig)})
            unit.emit((vis + " " if vis != "none" else "") + text, {"kind": "src", "file": f, "line0": _line_of(src, start), "fn": None})
            i += 1
            continue
        if s.startswith("//@auto_helpers "):
            kv, rest = _parse_kv(s[len("//@auto_helpers "):].split())
            _emit_auto_helpers(unit, [x.strip(",") for x in rest if x.strip(",")], src_of, [r for r in kv.get("rules", "").split(",") if r], rel, i + 1)
            i += 1
            continue
        if s.startswith("//@typeof "):
            # //@typeof NAME = <file> :: fn <fname> :: <param>   -- a hole in the overlay filled with the parameter's REAL type, so
            # that a stub written for a function the unit does not extract (an FFI wrapper) keeps following its real signature
            m = re.match(r"//@typeof\s+(\w+)\s*=\s*(\S+)\s*::\s*fn\s+(\w+)\s*::\s*(\w+)\s*$", s)
            if not m:
                raise Inconclusive("template error %s:%d: bad //@typeof" % (rel, i + 1))
            src = src_of(m.group(2))
            ty = None
            for fm in re.finditer(r"\bfn\s+%s\s*\(([^)]*)\)" % re.escape(m.group(3)), src):
                for par in _split_params(fm.group(1)):
                    pm = re.match(r"\s*(?:mut\s+)?(\w+)\s*:\s*(.+?)\s*$", par, re.S)
                    if pm and pm.group(1) == m.group(4):
                        ty = " ".join(pm.group(2).split())
                        break
                if ty:
                    break
            if ty is None:
                raise Inconclusive("lost anchor: parameter %s of fn %s in %s" % (m.group(4), m.group(3), m.group(2)))
            if not re.fullmatch(r"u8|u16|u32|u64|usize|i32|i64|isize", ty):
                raise Inconclusive("parameter %s of fn %s has type `%s`, which the overlay's stub does not cover" % (m.group(4), m.group(3), ty))
            unit.typeholes = getattr(unit, "typeholes", {})
            unit.typeholes[m.group(1)] = ty
            i += 1
            continue
        if getattr(unit, "typeholes", None) and not s.startswith("//@"):
            ln = re.sub(r"\b(%s)\b" % "|".join(map(re.escape, unit.typeholes)), lambda mm: unit.typeholes[mm.group(1)], ln)
            lines[i] = ln
            s = ln.strip()
        if s.startswith("//@lits"):
            unit.emit(rulesmod.lits_module(), {"kind": "gen", "file": "<generated byte-literal constants (rule R22)>", "line": 0})
            i += 1
            continue
        if s.startswith("//@canary_false"):
            first = len(unit.out_lines) + 1
            name = "cnry_false_%d" % (len(unit.canaries) + 1)
            unit.emit("proof fn %s() ensures false {}" % name, {"kind": "gen", "file": "<deliberately false: the verifier must report it>", "line": 0})
            unit.canaries.append({"name": name, "for": "<verifier liveness>", "out_first": first, "out_last": len(unit.out_lines)})
            i += 1
            continue
        if s.startswith("//@lemma"):
            kv, rest = _parse_kv(s[len("//@lemma"):].split())
            cur_lemma = {"unit": unit.name, "qual": "lemma:" + (rest[0] if rest else "L%d" % (i + 1)), "name": rest[0] if rest else "L%d" % (i + 1),
                         "props": [p for p in kv.get("props", "").split(",") if p], "implicit": [], "out_first": len(unit.out_lines) + 1,
                         "tmpl": rel, "tmpl_line": i + 1, "kind": "lemma"}
            unit.lemmas.append(cur_lemma)
            i += 1
            continue
        if s.startswith("//@endlemma"):
            if unit.lemmas and "out_last" not in unit.lemmas[-1]:
                unit.lemmas[-1]["out_last"] = len(unit.out_lines)
            i += 1
            continue
        if s.startswith("//@fn "):
            f, path, kv = _parse_target(s[len("//@fn "):])
            src = src_of(f)
            try:
                it = find_item(src, path)
            except LexError as e:
                raise Inconclusive("cannot tokenize %s: %s" % (f, e))
            if it is None and kv.get("missing") == "violation":
                # the contract demands this function; its absence is itself a failed obligation
                nm = kv.get("as") or path[-1].split()[1]
                qual = "::".join([[w for w in p.split() if not w.startswith("#")][-1] for p in path][:-1] + [nm])
                unit.missing.append({"unit": unit.name, "qual": qual, "file": f, "path": path, "props": [p for p in kv.get("props", "").split(",") if p],
                                     "tmpl": rel, "tmpl_line": i + 1, "what": kv.get("what", "").replace("_", " ")})
                j = i + 1
                while j < len(lines) and lines[j].strip() != "//@end":
                    j += 1
                i = j + 1
                continue
            if it is None and kv.get("missing") == "skip":
                # an optional helper of the current source: without it the overlay for it is simply not emitted (its callers' contracts decide)
                unit.lost_regions.append("optional function %s absent" % " :: ".join(path))
                j = i + 1
                while j < len(lines) and lines[j].strip() != "//@end":
                    j += 1
                i = j + 1
                continue
            if it is None or isinstance(it, tuple) or it.body_open is None:
                raise Inconclusive("lost anchor: fn %s :: %s" % (f, " :: ".join(path)))
            names, sig = fn_params(src, it)
            cur_fn = {
                "unit": unit.name, "file": f, "path": path, "name": kv.get("as") or path[-1].split()[1], "real_name": path[-1].split()[1],
                "qual": "::".join([[w for w in p.split() if not w.startswith("#")][-1] for p in path][:-1] + [kv.get("as") or path[-1].split()[1]]),
                "props": [p for p in kv.get("props", "").split(",") if p],
                "implicit": [p for p in kv.get("implicit", "").split(",") if p],
                "rules": [r for r in kv.get("rules", "").split(",") if r],
                "drop": [p for p in kv.get("drop", "").split(",") if p],
                "add": [p for p in kv.get("add", "").split(",") if p],
                "real_params": names, "real_sig": sig, "sig_sha256": sha(sig),
                "src_lines": [_line_of(src, it.kw_start), _line_of(src, it.end)],
                "body_sha256": sha(src[it.body_open:it.body_close + 1]),
                "out_first": len(unit.out_lines) + 1,
                "_item": it, "_src": src, "_sigtext": [],
                "tmpl": rel, "tmpl_line": i + 1,
                "sig_expect": kv.get("sig"),
            }
            i += 1
            continue
        if s == "//@body":
            if cur_fn is None:
                raise Inconclusive("//@body without //@fn in %s:%d" % (rel, i + 1))
            # directives until //@end
            j = i + 1
            dirs = []
            while j < len(lines) and lines[j].strip() != "//@end":
                if lines[j].strip().startswith("//@ ") and not lines[j].strip().startswith("//@ |"):
                    text, j2 = _read_directive_block(lines, j)
                    dirs.append((j + 1, text))
                    j = j2
                elif lines[j].strip() == "" or lines[j].strip().startswith("//"):
                    j += 1
                else:
                    raise Inconclusive("template error %s:%d: unexpected text inside //@body" % (rel, j + 1))
            if j >= len(lines):
                raise Inconclusive("template error %s: //@body without //@end" % rel)
            _emit_body(unit, cur_fn, dirs)
            cur_fn["out_last"] = len(unit.out_lines)
            _emit_canary(unit, cur_fn)
            for k in ("_item", "_src", "_sigtext"):
                cur_fn.pop(k, None)
            unit.fns.append(cur_fn)
            cur_fn = None
            i = j + 1
            continue
        if cur_fn is not None:
            cur_fn["_sigtext"].append(ln)
        unit.emit(ln, {"kind": "tmpl", "file": rel, "line0": i + 1})
        i += 1
    return unit


def _check_signature(fnrec):
    sigtext = "\n".join(fnrec["_sigtext"])
    # overlay parameter names
    m = re.search(r"\bfn\s+%s\b" % re.escape(fnrec["name"]), sigtext)
    if not m:
        raise Inconclusive("template error: overlay signature of %s not found" % fnrec["qual"])
    toks = tokenize(sigtext[m.start():])
    it_names = []
    # reuse fn_params on a fake item
    class _I:  # noqa
        pass
    fake = _I()
    fake.kw_start = 0
    # find the '(' ... ')' then cut there (fn_params needs hdr_end)
    k = 2
    from rstok import skip_angle
    if toks[k].text == "<":
        k = skip_angle(toks, k)
    c = match_close(toks, k)
    fake.hdr_end = toks[c].end
    fake.end = toks[c].end
    ov_names, _ = fn_params(sigtext[m.start():], fake)
    # by-value parameters the real signature declares `mut`: make the overlay binding mutable too
    fnrec["mut_params"] = re.findall(r"\bmut\s+(\w+)\s*:", fnrec["real_sig"])
    real = [p for p in fnrec["real_params"] if p not in fnrec["drop"]]
    ov = [p for p in ov_names if p not in fnrec["add"]]
    fnrec["overlay_params"] = ov_names
    if real != ov:
        raise Inconclusive("lost anchor: signature of %s changed: real parameters %s, overlay %s" % (fnrec["qual"], real, ov))
    if fnrec.get("sig_expect") and fnrec["sig_expect"] != fnrec["sig_sha256"]:
        raise Inconclusive("lost anchor: signature text of %s changed (sha %s, overlay written for %s): %s" % (
            fnrec["qual"], fnrec["sig_sha256"], fnrec["sig_expect"], fnrec["real_sig"]))


_BASELINE = None
_KW = set("as break const continue crate else enum extern false fn for if impl in let loop match mod move mut pub ref return self Self static struct super trait true type unsafe use where while async await dyn".split())


def _local_renaming(unit_name, qual, body):
    """{old: new} if `body` equals the pinned body of this function (units/baseline_bodies.json) token for token except for a
    consistent, injective renaming of identifiers that are only ever used as plain variables; None otherwise."""
    global _BASELINE
    if _BASELINE is None:
        p = os.path.join(VERIF, "units", "baseline_bodies.json")
        _BASELINE = json.load(open(p)) if os.path.exists(p) else {}
    base = _BASELINE.get(unit_name, {}).get(qual)
    if not base:
        return None
    now = [t.text for t in tokenize(body)]
    if len(now) != len(base) or now == base:
        return None
    ren, back = {}, {}
    for k, (a, b) in enumerate(zip(base, now)):
        if a == b:
            continue
        if not (re.fullmatch(r"[A-Za-z_]\w*", a) and re.fullmatch(r"[A-Za-z_]\w*", b)) or a in _KW or b in _KW:
            return None
        if ren.setdefault(a, b) != b or back.setdefault(b, a) != a:
            return None
    for k, (a, b) in enumerate(zip(base, now)):
        prev, nxt = (base[k - 1] if k else ""), (base[k + 1] if k + 1 < len(base) else "")
        fnish = prev in (".", "::") or nxt in ("(", "::", "!")       # a field, method, path segment, call or macro - not a plain variable
        if a in ren and a != b and fnish:
            return None      # a renamed occurrence is not a plain variable
        if a in ren and a == b and not fnish:
            return None      # the variable was renamed in some places only
        if a == b and a in back and not fnish:
            return None      # the new name already was a variable of the pinned body
    return ren


def _pinned_occurrence(unit_name, qual, anchor, body, occ):
    """The one offset among `occ` (occurrences of `anchor` in `body`) whose preceding tokens agree with what precedes the
    anchor's single occurrence in the pinned body (units/baseline_bodies.json) strictly longer than every other occurrence
    does; None if the pinned body does not have the anchor exactly once or no occurrence stands out.  Only used to place
    overlay *hints* (each is still checked by Verus), never contracts."""
    global _BASELINE
    if _BASELINE is None:
        p = os.path.join(VERIF, "units", "baseline_bodies.json")
        _BASELINE = json.load(open(p)) if os.path.exists(p) else {}
    base = _BASELINE.get(unit_name, {}).get(qual)
    if not base:
        return None
    try:
        at = [t.text for t in tokenize(anchor)]
    except Exception:
        return None
    if not at:
        return None
    hits = [k for k in range(len(base) - len(at) + 1) if base[k:k + len(at)] == at]
    if len(hits) != 1:
        return None
    ctx = base[:hits[0]]
    scores = []
    for off in occ:
        try:
            pre = [t.text for t in tokenize(body[:off])]
        except Exception:
            return None
        n = 0
        while n < len(ctx) and n < len(pre) and ctx[-1 - n] == pre[-1 - n]:
            n += 1
        scores.append(n)
    best = max(scores)
    if best < 3 or scores.count(best) != 1:
        return None
    return occ[scores.index(best)]


def _rename_idents(text, ren):
    return re.sub(r"(?<![\w.:])(%s)(?!\w|\s*\(|::|!)" % "|".join(re.escape(k) for k in ren), lambda m: ren[m.group(1)], text)


def _split_params(text):
    out, depth, cur = [], 0, ""
    for ch in text:
        if ch in "<([":
            depth += 1
        elif ch in ">)]":
            depth -= 1
        if ch == "," and depth == 0:
            out.append(cur)
            cur = ""
        else:
            cur += ch
    if cur.strip():
        out.append(cur)
    return out


def _emit_body(unit, fnrec, dirs):
    _check_signature(fnrec)
    for nm in fnrec.get("mut_params", []):
        if nm == "self":
            continue
        for idx in range(fnrec["out_first"] - 1, len(unit.out_lines)):
            ln = unit.out_lines[idx]
            if re.search(r"\bfn\s+%s\b" % re.escape(fnrec["name"]), ln) or idx > fnrec["out_first"] - 1:
                new = re.sub(r"(?<![\w.])(?<!mut )%s\s*:" % re.escape(nm), "mut %s:" % nm, ln, count=1)
                if new != ln and "fn " in ln:
                    unit.out_lines[idx] = new
                    break
    it, src = fnrec["_item"], fnrec["_src"]
    body = src[it.body_open:it.body_close + 1]   # includes braces
    orig = body
    if "R4" in fnrec["rules"] and len(re.findall(r"\.lock\(\)", orig)) > 1:
        # R4 reads ONE critical section per call as an atomic step; a function that takes the lock twice exposes an
        # intermediate state to the other thread, which a pre/post contract cannot see: leave it to the native stand-in
        unit.lost_hints.append("%s takes the lock %d times: the one-atomic-step reading of rule R4 does not cover it" % (fnrec["qual"], len(re.findall(r"\.lock\(\)", orig))))
        unit.outside_reading.append({"fn": fnrec["qual"], "props": list(fnrec["props"]),
                                     "why": "%s takes the lock %d times; rule R4 reads one critical section per call as one atomic step, so its contract says nothing about the intermediate state the other thread can see" % (fnrec["qual"], len(re.findall(r"\.lock\(\)", orig)))})
    ren = _local_renaming(unit.name, fnrec["qual"], orig)
    if ren:
        # the body is the pinned body up to a consistent renaming of local variables: carry the overlay's hints along
        dirs = [(tl, _rename_idents(d, ren)) for (tl, d) in dirs]
        fnrec["renamed_locals"] = ren
    body = apply_rules(body, fnrec["rules"], unit, fnrec["qual"])
    body = _keep_lines(orig, body)
    if body.count("\n") != orig.count("\n"):
        raise Inconclusive("internal: line count changed by rules in %s" % fnrec["qual"])
    # splice overlay
    inserts = []   # (offset, text)
    regions = []
    loops = None
    for (tl, d) in dirs:
        m = re.match(r'^(loop)\s+(\d+)\s*:\s*(.*)$', d, re.S)
        if m:
            if loops is None:
                loops = _loops(body)
            n = int(m.group(2))
            if n < 1 or n > len(loops):
                unit.lost_hints.append("loop %d of %s (found %d loops)" % (n, fnrec["qual"], len(loops)))
                continue
            inserts.append((loops[n - 1][1], " " + m.group(3).strip() + " ", tl))
            continue
        m = re.match(r'^(before|after)\s+"((?:[^"\\]|\\.)*)"(?:\s*#(\d+))?\s*:\s*(.*)$', d, re.S)
        if m:
            anchor = m.group(2).replace('\\"', '"').replace("\\\\", "\\")
            occ = [x.start() for x in re.finditer(re.escape(anchor), body)]
            want = int(m.group(3)) if m.group(3) else None
            if want is None and len(occ) > 1:
                # a change duplicated the anchor text: keep the occurrence whose preceding tokens match the pinned body's
                pick = _pinned_occurrence(unit.name, fnrec["qual"], anchor, body, occ)
                if pick is not None:
                    occ = [pick]
            if want is None and len(occ) != 1:
                unit.lost_hints.append("`%s` occurs %d times in %s" % (anchor, len(occ), fnrec["qual"]))
                continue
            if want is not None and want > len(occ):
                unit.lost_hints.append("`%s` #%d in %s" % (anchor, want, fnrec["qual"]))
                continue
            off = occ[(want or 1) - 1]
            if m.group(1) == "after":
                off += len(anchor)
            inserts.append((off, " " + m.group(4).strip() + " ", tl))
            continue
        m = re.match(r'^implicit\s+([\w,]+)\s+from\s+"((?:[^"\\]|\\.)*)"(?:\s+to\s+"((?:[^"\\]|\\.)*)")?\s*$', d.strip(), re.S)
        if m:
            # implicit (safety) obligations between two anchors of the real body carry extra property tags; a lost
            # anchor only loses the refinement (the function-level implicit tags still apply), never the obligation
            a1 = m.group(2).replace('\\"', '"')
            o1 = body.find(a1)
            o2 = len(body)
            if m.group(3):
                o2 = body.find(m.group(3).replace('\\"', '"'), max(o1, 0))
            if o1 < 0 or o2 < 0 or body.count(a1) != 1:
                unit.lost_regions.append("implicit region `%s` of %s" % (a1, fnrec["qual"]))
                continue
            regions.append({"tags": [t for t in m.group(1).split(",") if t], "l0": body.count("\n", 0, o1), "l1": body.count("\n", 0, o2)})
            continue
        m = re.match(r'^(at_start|at_end)\s*:\s*(.*)$', d, re.S)
        if m:
            off = 1 if m.group(1) == "at_start" else len(body) - 1
            inserts.append((off, " " + m.group(2).strip() + " ", tl))
            continue
        raise Inconclusive("template error: bad directive in %s: %s" % (fnrec["qual"], d[:60]))
    inserts = [x for x in inserts if (fnrec["qual"], x[2]) not in getattr(unit, "drop", ())]
    fnrec["inserts"] = [{"tl": tl, "text": text.strip()} for (_, text, tl) in inserts]
    # apply inserts back to front (stable for equal offsets: keep template order)
    order = sorted(range(len(inserts)), key=lambda k: (inserts[k][0], k), reverse=True)
    # for equal offsets, later directives should come after earlier ones: process reversed order correctly
    for k in order:
        off, text, tl = inserts[k]
        body = body[:off] + text.replace("\n", " ") + body[off:]
    fnrec["overlay_inserts"] = len(inserts)
    fnrec["calls"] = _called_names(body)
    fnrec["body_out_first"] = len(unit.out_lines) + 1
    fnrec["implicit_regions"] = [{"tags": r["tags"], "first": fnrec["body_out_first"] + r["l0"], "last": fnrec["body_out_first"] + r["l1"]} for r in regions]
    unit.emit(body, {"kind": "src", "file": fnrec["file"], "line0": _line_of(src, it.body_open), "fn": fnrec["qual"]})


_NOT_CALLS = {"if", "while", "match", "for", "loop", "return", "fn", "Some", "Ok", "Err", "None", "assert", "proof", "let", "in", "as", "move", "ref", "mut", "else", "break", "continue", "Self", "self", "super", "crate"}


def _called_names(text):
    """Identifiers used in call position (`name(`, `.name(`, `Path::name(`), macros excluded."""
    try:
        toks = tokenize(text)
    except LexError:
        return []
    out = set()
    for i, t in enumerate(toks[:-1]):
        if t.kind == "id" and toks[i + 1].text == "(" and t.text not in _NOT_CALLS and not (i > 0 and toks[i - 1].text == "fn") and not t.text[0].isupper():
            out.add(t.text)
    return sorted(out)


_PURE_METHODS = {"len", "is_some", "is_none", "is_ok", "is_err", "is_empty"}


def _pure_expr(body):
    """`{ EXPR }` where EXPR is one side-effect-free expression Verus can read as a specification: field accesses,
    literals, operators, comparisons and the few std observers with a specification reading.  Returns EXPR or None."""
    inner = body.strip()[1:-1].strip()
    inner = re.sub(r"//[^\n]*", "", inner).strip()
    if not inner or re.search(r"[;!?|{}]|\blet\b|\bmut\b|\bunsafe\b|\bloop\b|\bwhile\b|\bmatch\b|\bif\b|=>|&&\s*$", inner.replace("!=", " ne ")) :
        return None
    try:
        toks = tokenize(inner)
    except LexError:
        return None
    for i, t in enumerate(toks[:-1]):
        if t.kind == "id" and toks[i + 1].text == "(" and t.text not in _PURE_METHODS:
            return None
    return inner


def _emit_auto_helpers(unit, files, src_of, rules, rel, tline):
    """Functions of the named source files that extracted bodies call but the unit does not define (helpers a change
    introduced, or small accessors): copied in verbatim.  A single-expression pure helper gets the generated
    contract `ensures result == <its own body expression>` (its definition); any other helper is copied without a
    contract, which leaves its callers' obligations undecidable by the verifier (the unit is then `degraded`)."""
    unit.auto_helpers = getattr(unit, "auto_helpers", [])
    from rstok import parse_items
    cands = []   # (file, src, impl item or None, fn item)
    for f in files:
        src = src_of(f)
        try:
            items = parse_items(src)
        except LexError as e:
            raise Inconclusive("cannot tokenize %s: %s" % (f, e))
        for it in items:
            if it.kind == "fn" and it.body_open is not None:
                cands.append((f, src, None, it))
            elif it.kind == "impl" and not it.trait:
                for sub in it.sub:
                    if sub.kind == "fn" and sub.body_open is not None:
                        cands.append((f, src, it, sub))
    # module-level integer constants the extracted bodies mention but the unit does not define (a constant a change introduced):
    # copied in with their own value (`static` -> `const`, as rule R36); anything that is not an integer constant expression is left alone
    text = "\n".join(unit.out_lines)
    for f in files:
        src = src_of(f)
        for m in re.finditer(r"(?m)^(?:pub(?:\([^)]*\))?\s+)?(?:const|static)\s+([A-Z][A-Z0-9_]*)\s*:\s*(u8|u16|u32|u64|usize|i32|i64)\s*=\s*([0-9_xa-fA-F\s()<>*+\-]+?)\s*;", src):
            nm, ty, val = m.group(1), m.group(2), " ".join(m.group(3).split())
            if re.search(r"\b%s\b" % nm, text) and not re.search(r"\b(?:const|static)\s+%s\b" % nm, text):
                unit.emit("pub const %s: %s = %s;" % (nm, ty, val), {"kind": "gen", "file": "<auto-extracted constant %s from %s:%d>" % (nm, f, _line_of(src, m.start())), "line": 0})
                unit.auto_consts = getattr(unit, "auto_consts", []) + [{"name": nm, "type": ty, "value": val, "file": f, "line": _line_of(src, m.start())}]
    for _round in range(6):
        text = "\n".join(unit.out_lines)
        defined = set(re.findall(r"\bfn\s+(\w+)", text))
        types = set(re.findall(r"\b(?:struct|enum)\s+(\w+)", text))
        wanted = {}
        for fr in unit.fns:
            for nm in fr.get("calls", []):
                if nm not in defined:
                    wanted.setdefault(nm, []).append(fr)
        new = False
        for (f, src, imp, it) in cands:
            if it.name not in wanted or it.name in defined:
                continue
            if imp is not None and re.sub(r"<.*", "", imp.name).strip() not in types:
                continue
            callers = wanted[it.name]
            _emit_helper(unit, f, src, imp, it, rules, callers, rel, tline)
            defined.add(it.name)
            new = True
        if not new:
            break


def _emit_helper(unit, f, src, imp, it, rules, callers, rel, tline):
    sig = src[it.kw_start:it.body_open]
    body = src[it.body_open:it.body_close + 1]
    toks = tokenize(sig)
    k = 2
    from rstok import skip_angle
    if toks[k].text == "<":
        k = skip_angle(toks, k)
    c = match_close(toks, k)
    head = sig[:toks[c].end]
    tail = sig[toks[c].end:]
    ret, where = None, ""
    m = re.match(r"\s*->\s*(.*?)(\bwhere\b.*)?$", tail, re.S)
    if m:
        ret, where = m.group(1).strip(), (m.group(2) or "").strip()
    elif tail.strip().startswith("where"):
        where = tail.strip()
    expr = _pure_expr(body) if (ret and "&mut" not in head) else None
    qual = ((re.sub(r"<.*", "", imp.name).strip() + "::") if imp is not None else "") + it.name
    lines = []
    if imp is not None:
        hdr = src[imp.start:imp.body_open]
        hdr = hdr[re.search(r"\bimpl\b", hdr).start():]
        lines.append(" ".join(hdr.split()) + " {")
    lines.append("#[verifier::loop_isolation(false)]")
    sigline = " ".join(head.split()) + ((" -> (r_: %s)" % ret) if ret else "") + ((" " + " ".join(where.split())) if where else "")
    lines.append(sigline)
    if expr is not None:
        lines.append("    ensures r_ == (%s)," % " ".join(expr.split()))
    pre = apply_rules("\n".join(lines), rules, unit, "helper " + qual)
    first = len(unit.out_lines) + 1
    unit.emit(pre, {"kind": "gen", "file": "<auto-extracted helper %s: signature copied from %s:%d>" % (qual, f, _line_of(src, it.kw_start)), "line": 0})
    orig = body
    body2 = _keep_lines(orig, apply_rules(body, rules + ["STD"], unit, "helper " + qual))
    unit.emit(body2, {"kind": "src", "file": f, "line0": _line_of(src, it.body_open), "fn": qual})
    if imp is not None:
        unit.emit("}", {"kind": "gen", "file": "<auto-extracted helper %s>" % qual, "line": 0})
    props = sorted(set(p for fr in callers for p in fr["props"]))
    implicit = sorted(set(p for fr in callers for p in (fr.get("implicit") or [])))
    names, rsig = fn_params(src, it)
    rec = {"unit": unit.name, "file": f, "path": [qual], "name": it.name, "real_name": it.name, "qual": qual, "props": props, "implicit": implicit,
           "rules": rules + ["STD"], "drop": [], "add": [], "real_params": names, "real_sig": rsig, "sig_sha256": sha(rsig),
           "src_lines": [_line_of(src, it.kw_start), _line_of(src, it.end)], "body_sha256": sha(body), "out_first": first, "out_last": len(unit.out_lines),
           "tmpl": rel, "tmpl_line": tline, "sig_expect": None, "inserts": [], "overlay_inserts": 0, "calls": _called_names(body2),
           "auto_helper": True, "auto_contract": ("result == " + " ".join(expr.split())) if expr is not None else None,
           "called_from": sorted(fr["qual"] for fr in callers)}
    unit.fns.append(rec)
    unit.auto_helpers.append(rec)
    if expr is None:
        unit.lost_hints.append("helper %s (%s:%d, called from %s) has no contract in the overlay and is not a single pure expression" % (
            qual, f, rec["src_lines"][0], ", ".join(rec["called_from"])))


def _emit_canary(unit, fnrec):
    """Vacuity guard: for a function with a `requires`, emit `proof fn canary(..) requires <same> ensures false {}`;
    Verus must REFUTE it (an unsatisfiable precondition would make every obligation of the function vacuous)."""
    sigtext = "\n".join(fnrec["_sigtext"])
    m = re.search(r"\bfn\s+%s\b" % re.escape(fnrec["name"]), sigtext)
    sub = sigtext[m.start():]
    toks = tokenize(sub)
    from rstok import skip_angle
    k = 2
    generics = ""
    if toks[k].text == "<":
        k2 = skip_angle(toks, k)
        generics = sub[toks[k].start:toks[k2 - 1].end]
        k = k2
    c = match_close(toks, k)
    params = sub[toks[k].end:toks[c].start]
    # requires ... up to ensures/decreases/end (top level)
    req_start = req_end = None
    j = c + 1
    while j < len(toks):
        t = toks[j]
        if t.text in ("(", "[", "{"):
            j = match_close(toks, j)
        elif t.kind == "id" and t.text == "requires" and req_start is None:
            req_start = t.end
        elif t.kind == "id" and t.text in ("ensures", "decreases", "returns", "opens_invariants", "no_unwind") and req_start is not None and req_end is None:
            req_end = t.start
        j += 1
    if req_start is None:
        return
    req = sub[req_start:req_end if req_end is not None else len(sub)]
    req = re.sub(r"/\*.*?\*/", " ", req, flags=re.S)
    # parameters
    ps = []
    for prm in _split_params(params):
        prm = prm.strip()
        if not prm:
            continue
        if re.match(r"^&\s*mut\s+self$|^&\s*self$|^self$|^mut\s+self$", prm):
            ps.append("self_: Self")
            continue
        nm, ty = prm.split(":", 1)
        nm = nm.replace("mut ", "").strip()
        ty = re.sub(r"^\s*&\s*mut\s+", "", ty)
        ps.append("%s: %s" % (nm, ty.strip()))
    req = re.sub(r"\bold\(\s*self\s*\)", "self_", req)
    req = re.sub(r"\bold\(\s*(\w+)\s*\)", r"\1", req)
    req = re.sub(r"\bself\b", "self_", req)
    name = "cnry_%d" % (len(unit.canaries) + 1)
    text = "proof fn %s%s(%s) requires %s ensures false {}" % (name, generics, ", ".join(ps), " ".join(req.split()).rstrip(", ") + ",")
    first = len(unit.out_lines) + 1
    unit.emit(text, {"kind": "gen", "file": "<canary for %s>" % fnrec["qual"], "line": 0})
    unit.canaries.append({"name": name, "for": fnrec["qual"], "out_first": first, "out_last": len(unit.out_lines)})


def _split_params(params):
    toks = tokenize(params)
    parts, last, i = [], 0, 0
    from rstok import skip_angle
    while i < len(toks):
        t = toks[i]
        if t.text in ("(", "[", "{"):
            i = match_close(toks, i)
        elif t.text == "<":
            i = skip_angle(toks, i) - 1
        elif t.text == ",":
            parts.append(params[last:t.start])
            last = t.end
        i += 1
    parts.append(params[last:])
    return parts


def collect_clauses(unit):
    """Tagged contract clauses `/*@C01,C07 #label*/ ...` inside function / lemma regions."""
    tag_re = re.compile(r"/\*@\s*([C0-9, ]+?)\s*(?:#(\w+))?\s*(?:unless=(\w+))?\s*(shared)?\s*\*/")
    regions = unit.fns + unit.lemmas
    for idx, ln in enumerate(unit.out_lines):
        for m in tag_re.finditer(ln):
            line = idx + 1
            fn = None
            for f in regions:
                if f["out_first"] <= line <= f.get("out_last", 0):
                    fn = f
                    break
            unit.clauses.append({"fn": fn["qual"] if fn else None, "tags": [t.strip() for t in m.group(1).split(",") if t.strip()],
                                 "label": m.group(2), "unless": m.group(3), "shared": bool(m.group(4)), "out_line": line})


def write_unit(unit, outdir):
    collect_clauses(unit)
    os.makedirs(outdir, exist_ok=True)
    p = os.path.join(outdir, unit.name + ".rs")
    with open(p, "w") as f:
        f.write("\n".join(unit.out_lines))
    with open(os.path.join(outdir, unit.name + ".map.json"), "w") as f:
        json.dump({"map": unit.map, "fns": unit.fns, "items": unit.items, "rules": unit.rule_counts,
                   "lemmas": unit.lemmas, "canaries": unit.canaries, "clauses": unit.clauses, "missing": unit.missing,
                   "lost_hints": unit.lost_hints}, f)
    return p


if __name__ == "__main__":
    name = sys.argv[1]
    out = sys.argv[2] if len(sys.argv) > 2 else os.path.join(VERIF, "build")
    try:
        u = extract_unit(name)
    except Inconclusive as e:
        print("INCONCLUSIVE:", e)
        sys.exit(2)
    print(write_unit(u, out))
    for f in u.fns:
        print("  fn %-40s %s:%d-%d body=%s rules=%s" % (f["qual"], f["file"], f["src_lines"][0], f["src_lines"][1], f["body_sha256"], ",".join(f["rules"])))
    print("  rule applications:", u.rule_counts)
