"""Native witness search / replay: runs scenarios against the REAL compiled crate (scratch copy of /repo) purely to
turn a failed proof obligation into a concrete failing input.  It never decides a property."""
import itertools
import json
import os
import shutil
import subprocess
import sys

VERIF = os.path.dirname(os.path.dirname(os.path.abspath(__file__)))
NATIVE = os.path.join(VERIF, "build", "native")


def hexs(b):
    if isinstance(b, str):
        b = b.encode("latin1")
    return b.hex()


def scenario_line(sc):
    hd = ",".join("%s=%s" % (k, hexs(v)) for k, v in sc.get("headers", []))
    eh = ",".join("%s=%s" % (k, hexs(v)) for k, v in sc.get("entity_headers", []))
    etag = hexs(sc["etag"]) if sc.get("etag") is not None else "-"
    lm = sc.get("lm") or "-"
    scripts = "/".join(sc.get("scripts", []))
    return "|".join([sc["id"], sc.get("method", "GET"), hd, str(sc["len"]), etag, lm, eh, scripts, str(sc.get("extra_polls", 3))] + (["rope"] if sc.get("rope") else []))


def parse_obs(line):
    f = line.rstrip("\n").split("|")
    hdrs = []
    for kv in f[2].split(","):
        if kv:
            k, v = kv.split("=", 1)
            hdrs.append((k, bytes.fromhex(v)))
    evs = []
    for e in f[3].split(","):
        if not e:
            continue
        pre, ev = e.split(">", 1)
        lo, up, eos = pre.split(":")
        kind = ev[0]
        data = bytes.fromhex(ev[1:]) if kind in "DE" else b""
        evs.append({"lower": int(lo), "upper": None if up == "-" else int(up), "eos": eos == "1", "kind": kind, "data": data})
    calls = [tuple(int(x) for x in c.split("-")) for c in f[4].split(",") if c]
    panic = None if f[5] == "-" else bytes.fromhex(f[5]).decode("utf8", "replace")
    return {"id": f[0], "status": int(f[1]), "headers": hdrs, "events": evs, "calls": calls, "panic": panic}


def _native_dir(repo):
    import hashlib
    return os.path.join(NATIVE, hashlib.sha256(os.path.abspath(repo).encode()).hexdigest()[:8])


def prepare_native(repo=None):
    repo = repo or os.environ.get("VERIF_REPO", "/repo")
    dst = os.path.join(_native_dir(repo), "repo")
    os.makedirs(dst, exist_ok=True)
    subprocess.run(["rsync", "-a", "--delete", "--exclude", "target", "--exclude", ".git", repo.rstrip("/") + "/", dst + "/"], check=True)
    for f in os.listdir(os.path.join(VERIF, "native")):
        if f.endswith(".rs"):
            shutil.copy(os.path.join(VERIF, "native", f), os.path.join(dst, "tests", "verif_" + f))
    return dst


def run_native(test, scenarios, repo=None, timeout=1500, release=False):
    """Run scenario dicts through tests/verif_<test>.rs of the scratch copy. Returns list of observations."""
    dst = prepare_native(repo)
    nd = _native_dir(repo or os.environ.get("VERIF_REPO", "/repo"))
    tag = "%d" % os.getpid()
    inp, outp = os.path.join(nd, "scn-%s.txt" % tag), os.path.join(nd, "obs-%s.txt" % tag)
    with open(inp, "w") as f:
        for sc in scenarios:
            f.write((sc if isinstance(sc, str) else scenario_line(sc)) + "\n")
    if os.path.exists(outp):
        os.remove(outp)
    env = dict(os.environ, CARGO_TARGET_DIR=os.path.join(nd, "target"), VERIF_SCENARIOS=inp, VERIF_OBS=outp, CARGO_NET_OFFLINE="true")
    feats = ["--features", "dir"] if test == "dir_witness" else []
    # own process group: a change that sends the real code into an endless loop must not leave a spinning test binary behind
    import signal
    pr = subprocess.Popen(["cargo", "test", "--offline", "--quiet"] + (["--release"] if release else []) + feats + ["--test", "verif_" + test, "--", "--nocapture"], cwd=dst, env=env,
                          stdout=subprocess.PIPE, stderr=subprocess.STDOUT, text=True, start_new_session=True)
    try:
        out_text, _ = pr.communicate(timeout=timeout)
    except subprocess.TimeoutExpired:
        try:
            os.killpg(pr.pid, signal.SIGKILL)
        except Exception:
            pass
        try:
            pr.communicate(timeout=10)
        except Exception:
            pass
        raise RuntimeError("native run timed out after %ds" % timeout)
    if not os.path.exists(outp):
        raise RuntimeError("native run failed: " + (out_text or "")[-800:])
    lines = open(outp).read().splitlines()
    os.remove(inp)
    os.remove(outp)
    return lines


# ---------------------------------------------------------------- oracles over one observation (serve witness)
def first_terminal(evs):
    for i, e in enumerate(evs):
        if e["kind"] in "EN":
            return i
    return None


def oracle_serve(pid, sc, ob):
    """Return a string describing the violation of property `pid` visible in this observation, or None."""
    evs = ob["events"]
    ft = first_terminal(evs)
    hd = {}
    for k, v in ob["headers"]:
        hd.setdefault(k, []).append(v)
    if ob["panic"] is not None:
        # a panic after the first terminal event is C20's business, one before it C13's
        if pid == "C20" and ft is not None:
            return "panic when polled after the terminal event: %s" % ob["panic"]
        if pid == "C13" and ft is None:
            return "panic: %s" % ob["panic"]
    if pid == "C20":
        if ft is not None:
            for e in evs[ft + 1:]:
                if e["kind"] == "D" and len(e["data"]) > 0:
                    return "data after terminal event"
        return None
    if pid == "C12":
        for i, e in enumerate(evs):
            if e["eos"] and (e["kind"] == "E" or (e["kind"] == "D" and len(e["data"]) > 0)) and not sc.get("expect_fault"):
                return "is_end_stream() was true but the next poll yielded %s (step %d)" % ({"D": "data", "E": "an error", "P": "Pending"}[e["kind"]], i)
        if ft is not None and evs[ft]["kind"] == "N":
            tot = sum(len(e["data"]) for e in evs[:ft] if e["kind"] == "D")
            done = 0
            for e in evs[:ft + 1]:
                rem = tot - done
                if e["lower"] > rem or (e["upper"] is not None and e["upper"] < rem):
                    return "size hint [%s,%s] but %d bytes still delivered" % (e["lower"], e["upper"], rem)
                if e["kind"] == "D":
                    done += len(e["data"])
        return None
    if pid == "C01" and sc.get("method", "GET") == "GET":
        tot_all = sum(len(e["data"]) for e in evs if e["kind"] == "D")
        cl = hd.get("content-length")
        if cl and not cl[0].isdigit():
            return "Content-Length %r is not a decimal number" % cl[0]
        ann = int(cl[0]) if cl else (evs[0]["lower"] if evs else 0)
        if tot_all > ann:
            return "delivered %d bytes > announced %d" % (tot_all, ann)
        if ft is not None and evs[ft]["kind"] == "N":
            tot = sum(len(e["data"]) for e in evs[:ft] if e["kind"] == "D")
            if tot != ann:
                return "clean end after %d bytes, announced %d" % (tot, ann)
        if ob["status"] in (200, 206) and not cl:
            return "no Content-Length on %d" % ob["status"]
        return None
    if pid == "C07":
        if sc.get("expect_fault") and ft is not None and evs[ft]["kind"] == "N":
            return "faulty entity stream but the body ended cleanly"
        return None
    return None


# ---------------------------------------------------------------- scenario families
def fam_multipart_faults():
    """Two-part multipart responses with every short script of entity events for part 1 / part 2 (<= 3 events)."""
    out = []
    evset = ["D1", "D2", "D3", "E", "N", "P", "D0"]
    k = 0
    for n in (1, 2, 3):
        for s in itertools.product(evset, repeat=n):
            for part in (0, 1):
                scripts = ["R,N", "R,N"]
                scripts[part] = ",".join(s)
                # fault iff the script does not deliver exactly 2 bytes then End (ranges are 2 bytes each)
                deliv = 0
                fault = None
                for e in s:
                    if e == "E":
                        fault = True
                        break
                    if e == "N":
                        break
                    if e[0] == "D":
                        deliv += int(e[1:])
                        if deliv > 2:
                            fault = True
                            break
                if fault is None:
                    fault = deliv != 2
                k += 1
                out.append({"id": "mp%d" % k, "method": "GET", "headers": [("range", "bytes=0-1,5-6")], "len": 1000, "etag": '"x"',
                            "lm": "1000000000.0", "scripts": scripts, "extra_polls": 4, "expect_fault": fault})
    return out


def fam_single_faults():
    out = []
    evset = ["D1", "D2", "D3", "E", "N", "P", "D0"]
    k = 0
    for hdrs, ln in (([], 2), ([("range", "bytes=3-4")], 100)):
        for n in (1, 2, 3):
            for s in itertools.product(evset, repeat=n):
                deliv, fault = 0, None
                for e in s:
                    if e == "E":
                        fault = True
                        break
                    if e == "N":
                        break
                    if e[0] == "D":
                        deliv += int(e[1:])
                        if deliv > 2:
                            fault = True
                            break
                if fault is None:
                    fault = deliv != 2
                k += 1
                out.append({"id": "sg%d" % k, "method": "GET", "headers": hdrs, "len": ln, "etag": '"x"', "lm": "1000000000.0",
                            "scripts": [",".join(s)], "extra_polls": 4, "expect_fault": fault})
    return out


FAMILIES = {
    ("streams", "MultipartStream"): ("serve_witness", fam_multipart_faults),
    ("streams", "ExactLenStream"): ("serve_witness", fam_single_faults),
    ("streams", "Body"): ("serve_witness", lambda: fam_glue()),
}



# ---------------------------------------------------------------- streaming_body witness (native/stream_witness.rs)
def stream_line(sc):
    return "|".join([sc["id"], str(sc["chunk"]), hexs(sc["ae"]) if sc.get("ae") is not None else "-", "+".join(str(x) for x in sc["level_seq"]) if sc.get("level_seq") else str(sc.get("level", 6)), sc.get("method", "GET"), ",".join(sc["ops"])])


def parse_stream_obs(line):
    f = line.rstrip("\n").split("|")
    hdrs = [(kv.split("=", 1)[0], bytes.fromhex(kv.split("=", 1)[1])) for kv in f[2].split(",") if kv]
    res = [x for x in f[3].split(",") if x]
    nowriter = bool(res and res[0] == "nowriter")
    if nowriter:
        res = res[1:]
    panic = None if f[4] == "-" else bytes.fromhex(f[4]).decode("utf8", "replace")
    return {"id": f[0], "status": int(f[1]), "headers": hdrs, "results": res, "nowriter": nowriter, "panic": panic}


def oracle_stream(pid, sc, ob):
    """Property oracles for the raw (identity) streaming body, evaluated on one observed run."""
    ops, res = sc["ops"], ob["results"]
    if res and res[0] == "HANG":
        return "the scenario did not finish within 20 s (deadlock or endless loop)" if pid in ("C10", "C20") else None
    if ob["panic"] is not None:
        return "panic: " + ob["panic"] if pid in ("C08", "C11", "C20") else None
    cs = sc["chunk"]
    st = {"accepted": b"", "delivered": b"", "fill": 0, "reader_gone": False, "writer_gone": False, "aborted": False,
          "parked": None, "woken": False, "terminal": None}
    hints = []      # (lower, upper, bytes delivered before the poll) sampled before every poll

    def on_poll(c, r):
        pre, ev = r.split(">", 1)
        lo, up, eos = pre.split(":")
        eos = eos == "1"
        kind = ev[0]
        hints.append((int(lo), None if up == "-" else int(up), len(st["delivered"])))
        if pid == "C10" and kind != "P" and st["parked"] is not None and not st["woken"]:
            # something was there for the consumer, it had gone to sleep on waker `parked`, and nobody woke that waker
            return "the consumer parked on waker %s, then %s became available, but that waker was never woken" % (
                st["parked"].upper(), {"D": "a chunk", "E": "the error", "N": "the end"}[kind])
        if pid == "C12" and eos and (kind == "E" or (kind == "D" and len(bytes.fromhex(ev[1:])) > 0)):
            return "is_end_stream() true but next poll gave %s" % kind
        if pid in ("C11", "C12") and st["aborted"] and st["terminal"] is None and eos:
            return "is_end_stream() true while an abort error is pending"
        if kind == "D":
            d = bytes.fromhex(ev[1:])
            if pid == "C20" and st["terminal"] is not None and len(d) > 0:
                return "data after terminal event"
            if pid == "C08" and len(d) == 0:
                return "empty data frame"
            st["delivered"] += d
            if (pid == "C08" or (pid == "C11" and st["aborted"])) and not st["accepted"].startswith(st["delivered"]):
                return "delivered bytes are not a prefix of the accepted bytes"
            st["parked"], st["woken"] = None, False
        elif kind == "E":
            if pid == "C08" and not st["aborted"]:
                return "error without abort"
            if st["terminal"] is None:
                st["terminal"] = "E"
            st["parked"], st["woken"] = None, False
        elif kind == "N":
            if pid == "C11" and st["aborted"] and st["terminal"] is None:
                return "clean end after abort"
            if pid == "C08" and st["terminal"] is None and not st["aborted"] and st["delivered"] != st["accepted"]:
                return "clean end but delivered != accepted"
            if st["terminal"] is None:
                st["terminal"] = "N"
            st["parked"], st["woken"] = None, False
        elif kind == "P":
            if pid == "C10" and (st["writer_gone"] or st["aborted"]):
                return "Pending although the writer is gone / aborted"
            st["parked"], st["woken"] = ("b" if c == "Q" else ("c" if c == "k" else "a")), False
        return None

    # op `K<producer op>` (a producer step on another thread that starts while the consumer's poll is cloning its waker C): judged as
    # the poll (waker C) followed by the producer step, the only order consistent with a poll that saw an empty queue
    ops2, res2 = [], []
    for op, r00 in zip(ops, res):
        if op[0] == "K" and "^" in r00:
            r0, *inline = r00.split("~")
            r, _, wk = r0.partition("!")
            pr, prod, wc = r.split("^")
            ops2 += ["k", op[1:]]
            res2 += [pr, "~".join([prod + "!" + (wk or "0/0") + "/" + wc] + inline)]
        else:
            ops2.append(op)
            res2.append(r00)
    ops, res = ops2, res2
    for op, r00 in zip(ops, res):
        r0, *inline = r00.split("~")
        r, _, wk = r0.partition("!")
        wa, wb, wc = ([int(x) for x in wk.split("/")] + [0])[:3] if wk else (0, 0, 0)
        if st["parked"] == "a" and wa:
            st["woken"] = True
        if st["parked"] == "b" and wb:
            st["woken"] = True
        if st["parked"] == "c" and wc:
            st["woken"] = True
        c, arg = op[0], op[1:]
        if c in "WL":
            data = bytes.fromhex(arg)
            if r.startswith("w") and r[1:].isdigit():
                k = int(r[1:])
                if pid == "C08" and (k > len(data) or (len(data) > 0 and k == 0 and not st["aborted"] and not st["reader_gone"])):
                    return "write accepted %d of %d bytes" % (k, len(data))
                st["accepted"] += data[:k]
                published = st["fill"] + k >= cs
                st["fill"] = 0 if published else st["fill"] + k
                if pid == "C11" and st["reader_gone"] and published:
                    return "body dropped, yet a chunk-completing write returned Ok"
            elif r == "lo":
                st["accepted"] += data
                n = st["fill"] + len(data)
                if pid == "C11" and st["reader_gone"] and n >= cs:
                    return "body dropped, yet write_all completing a chunk returned Ok"
                st["fill"] = n % cs
            elif r in ("we", "le"):
                if pid == "C08" and not (st["aborted"] or st["reader_gone"]):
                    return "write to a live body failed"
        elif c == "F":
            if r == "fo":
                if pid == "C11" and st["reader_gone"] and st["fill"] > 0:
                    return "body dropped, yet flush of %d buffered bytes returned Ok" % st["fill"]
                if pid == "C11" and st["aborted"]:
                    return "flush after abort returned Ok"
                st["fill"] = 0
            elif r == "fe":
                if pid == "C08" and not (st["aborted"] or st["reader_gone"]):
                    return "flush on a live body failed"
        elif c == "A":
            if not st["writer_gone"]:
                st["aborted"] = True
        elif c == "X":
            if not st["writer_gone"]:
                st["writer_gone"] = True
                if not st["aborted"]:
                    st["fill"] = 0
        elif c == "R":
            st["reader_gone"] = True
        elif c in "PQk" and r != "p-":
            why = on_poll(c, r)
            if why:
                return why
        elif c == "D" and r.startswith("d") and r != "d-":
            # drain: all frames up to Pending / end / error, reported as their concatenation
            hexd, frames, shortest, t = r[1:].split(":")
            if int(frames) > 0:
                if pid == "C08" and int(shortest) == 0:
                    return "empty data frame"
                why = on_poll("P", "0:-:0>D" + hexd)
                if why:
                    return why
            if t in "NEP":
                why = on_poll("P", "0:-:0>" + t)
                if why:
                    return why
        # polls the consumer made from inside wake() while this operation ran (op `I`): it was woken, so it polls with waker A
        for inl in inline:
            if st["parked"] == "a":
                st["woken"] = True
            why = on_poll("P", inl)
            if why:
                return why + " (consumer polling at once when woken)"
    if pid == "C12" and st["terminal"] == "N":
        # the body ended cleanly: every hint sampled on the way must bracket the bytes that were still to come
        total = len(st["delivered"])
        for lo, up, before in hints:
            if lo > total - before:
                return "size_hint lower bound %d, but only %d more bytes were delivered before the clean end" % (lo, total - before)
            if up is not None and up < total - before:
                return "size_hint upper bound %d, but %d more bytes were delivered before the clean end" % (up, total - before)
    return None


# ---------------------------------------------------------------- Accept-Encoding negotiation and streaming_body headers
def py_should_gzip(value):
    """RFC 7231 5.3.4 preference of gzip vs identity, written from C16.  None = the value is outside the grammar the
    oracle judges (ungrammatical weight): no expectation.  Content-coding names (RFC 7231 3.1.2.1) and the ABNF literal `q=`
    are case-insensitive."""
    if value is None:
        return False
    q = {}
    for el in value.split(","):
        el = el.strip(" \t")
        if el == "":
            continue
        coding, sep, par = el.partition(";")
        coding = coding.strip(" \t")
        if not _re.fullmatch(r"[A-Za-z0-9*!#$%&'+.^_`|~-]+", coding):
            return None
        coding = coding.lower()
        w = 1000
        if sep:
            m = _re.fullmatch(r"[qQ]=(0(\.[0-9]{0,3})?|1(\.0{0,3})?)", par.strip(" \t"))
            if not m:
                return None
            t = m.group(1)
            frac = (t.split(".")[1] if "." in t else "").ljust(3, "0")
            w = int(t[0]) * 1000 + int(frac)
        q[coding] = w          # a coding listed twice: the later element overrides the earlier one (as specs in units/gz.rs)
    gz = q.get("gzip", q.get("*"))
    if gz is None or gz == 0:
        return False
    ident = q.get("identity", q.get("*", 1))      # unlisted identity: the least-preferred acceptable coding
    return gz >= ident


def fam_accept_encoding():
    weights = ["", ";q=0", ";q=1", ";q=0.5", ";q=0.001", ";q=0.25", "; q=0.5", " ;q=0", " ; q=0.75", ";q=1.000", ";q=0.", ";q=0.999", ";q=0.256", ";q=0.30"]
    codings = ["gzip", "identity", "*", "br"]
    els = [c + w for c in codings for w in weights]
    vals = [None, "", " ", ","]
    vals += els
    for sep in (",", ", ", " , "):
        for a in els:
            for b in els:
                if a.split(";")[0].strip() != b.split(";")[0].strip():
                    vals.append(a + sep + b)
    tri = [x for x in itertools.product(["gzip", "gzip;q=0.5", "gzip ;q=0", "gzip;q=0"], ["identity;q=0", "identity;q=0.5", "identity ;q=0.75", "identity"], ["*", "*;q=0", "* ;q=0.6", "br;q=1"])]
    for t in tri:
        for perm in itertools.permutations(t):
            vals.append(", ".join(perm))
    vals += ["gzip, gzip;q=0", "gzip;q=0, gzip", "gzip, identity, gzip;q=0.5", "gzip;q=0.5, identity;q=0, identity", "*, *;q=0", "identity, gzip;q=0.5, identity;q=0.001", "*;q=0, *", "gzip;q=0.3, gzip;q=0.3"]
    vals += ["GZIP", "Gzip;q=0.5", "GZIP;q=0, *", "gzip;q=0, GZIP", "GZIP, gzip;q=0", "gzip, IDENTITY;q=0", "Identity;q=0, gzip;q=0.001", "gzip;Q=0", "gzip;Q=0.5, identity;Q=0.6", "*;Q=0", "GZIP;Q=0, *;q=1",
             "br, GZIP;q=0.001", "IDENTITY, gzip;q=0.9", "gzip;q=0.5, Identity;q=0.6"]
    vals += ["gzip;q=2", "gzip;q=0.5555", "gzip;x=1", "gzip;q=", "gzip;", ";q=1", "gzip;q=1.001", "GZIP", "gzip;Q=1", "gzip\t;\tq=0", "\tgzip\t", "gzip,", ",gzip", "gzip,,identity;q=0"]
    out = []
    for k, v in enumerate(vals):
        out.append({"id": "ae%d" % k, "kind": "build", "chunk": 4, "ae": v, "level": 6, "method": "GET", "ops": ["G"]})
    return out


def _payloads():
    import random
    rnd = random.Random(7)
    d = {"empty": b"", "tiny": b"a", "text": b"hello, gzip world\n" * 3, "random": bytes(rnd.randrange(256) for _ in range(300)), "zeros": b"\0" * 2000}
    if os.environ.get("VERIF_TIER") == "thorough":
        d["random70k"] = bytes(rnd.randrange(256) for _ in range(70000))     # crosses the 32 KiB deflate window and the 64 KiB chunk size
        d["mixed"] = (b"abcabcabc" * 500 + bytes(rnd.randrange(256) for _ in range(500))) * 3
    return d


def fam_gzip():
    """C09 (bounded cross-check of the assumed flate2 contract, end to end): write/flush histories x levels 1..9 x chunk sizes."""
    pl = _payloads()
    hx = lambda b: b.hex()
    hist = []
    for name, p in pl.items():
        half = len(p) // 2
        hist += [
            (name + ":write-drop", ["L" + hx(p), "X", "D"]),
            (name + ":write-flush-drain-drop", ["L" + hx(p), "F", "D", "X", "D"]),
            (name + ":two-writes-two-flushes", ["L" + hx(p[:half]), "F", "D", "L" + hx(p[half:]), "F", "D", "X", "D"]),
            (name + ":flush-first", ["F", "D", "L" + hx(p), "F", "F", "D", "X", "D"]),
            (name + ":partial-writes", ["W" + hx(p), "W" + hx(p[1:]), "F", "D", "X", "D"]),
            (name + ":empty-write-before-flush", ["L" + hx(p), "W", "F", "D", "W", "L" + hx(p[:half]), "W", "F", "D", "X", "D"]),
            (name + ":double-flush-reader-behind", ["L" + hx(p[:half]), "F", "L" + hx(p[half:]), "F", "D", "F", "F", "D", "X", "D"]),
            (name + ":poll-interleaved", ["P", "L" + hx(p[:half]), "P", "F", "P", "L" + hx(p[half:]), "P", "X", "D"]),
        ]
    out, k = [], 0
    # a large, incompressible buffer handed over in single `write` calls (short counts) and flushed at once: the case
    # that leaves flate2's staging buffer full (defect D13); in every tier
    import random
    rnd11 = random.Random(11)
    big = bytes(rnd11.randrange(256) for _ in range(70000))
    huge = bytes(rnd11.randrange(256) for _ in range(200000))
    for cs, level in ((4096, 6), (7, 1)):
        for name, ops in (("huge:write_all-drop", ["L" + hx(huge), "X", "D"]), ("huge:write-write_all-flush", ["W" + hx(huge), "L" + hx(huge[:1000]), "F", "D", "X", "D"])):
            k += 1
            out.append({"id": "gz%d" % k, "kind": "gzip", "name": name, "chunk": cs, "ae": "gzip", "level": level, "method": "GET", "ops": ops})
    for cs, level in ((4096, 6), (4096, 1), (1, 1), (65536, 9)):
        for name, ops in (("big:short-write-flush", ["W" + hx(big), "F", "D", "X", "D"]),
                          ("big:two-short-writes-flush", ["W" + hx(big), "W" + hx(big[1:]), "F", "D", "X", "D"]),
                          ("big:write_all-flush", ["L" + hx(big), "F", "D", "X", "D"])):
            k += 1
            out.append({"id": "gz%d" % k, "kind": "gzip", "name": name, "chunk": cs, "ae": "gzip", "level": level, "method": "GET", "ops": ops})
    for cs in (1, 2, 3, 7, 64, 4096, 65536):
        for level in range(1, 10):
            if cs in (2, 3, 64, 65536) and level not in (1, 6, 9) and os.environ.get("VERIF_TIER") != "thorough":
                continue
            for name, ops in hist:
                k += 1
                out.append({"id": "gz%d" % k, "kind": "gzip", "name": name, "chunk": cs, "ae": "gzip", "level": level, "method": "GET", "ops": ops})
    return out


def oracle_gzip(pid, sc, ob):
    """C09 on one observed run: after every flush the frames so far decode to everything written before it; after the
    writer is dropped the body is exactly one well-formed gzip member of the written bytes."""
    if pid != "C09":
        return None
    if ob["panic"] is not None:
        return "panic: " + ob["panic"]
    import zlib
    hd = dict(ob["headers"])
    if hd.get("content-encoding") != b"gzip":
        return "gzip negotiated (Accept-Encoding: gzip, level %d) but no Content-Encoding: gzip" % sc["level"]
    written, flushed, data = b"", None, b""
    dropped, term = False, None
    for op, r0 in zip(sc["ops"], ob["results"]):
        r = r0.split("!")[0]
        c = op[0]
        if c == "L" and r == "lo":
            written += bytes.fromhex(op[1:])
        elif c == "W" and r.startswith("w") and r[1:].isdigit():
            written += bytes.fromhex(op[1:])[:int(r[1:])]
        elif c in "WLF" and r in ("we", "le", "fe"):
            return "%s failed on a live gzip body" % {"W": "write", "L": "write_all", "F": "flush"}[c]
        elif c == "F" and r == "fo":
            flushed = written
        elif c == "X":
            dropped = True
        elif c == "P" and ">" in r:
            ev = r.split(">", 1)[1]
            if ev[0] == "D":
                data += bytes.fromhex(ev[1:])
            elif ev[0] in "NE":
                term = ev[0]
        elif c == "D" and r != "d-":
            hexd, frames, shortest, t = r[1:].split(":")
            data += bytes.fromhex(hexd)
            if t in "NE":
                term = t
            if t == "L":
                return "body did not end within 400000 frames"
            if not dropped and flushed is not None:
                d = zlib.decompressobj(31)
                try:
                    plain = d.decompress(data)
                except Exception as e:
                    return "frames available after flush are not decodable gzip data: %s" % e
                if not plain.startswith(flushed):
                    return "after flush a streaming decoder reproduces %d of the %d bytes written before the flush" % (len(plain), len(flushed))
    if dropped:
        if term != "N":
            return "writer dropped but the body ended with %r" % term
        d = zlib.decompressobj(31)
        try:
            plain = d.decompress(data) + d.flush()
        except Exception as e:
            return "body is not a well-formed gzip member: %s" % e
        if not d.eof:
            return "gzip member is truncated (no trailer)"
        if d.unused_data:
            return "%d trailing bytes after the gzip member" % len(d.unused_data)
        if plain != written:
            return "gzip member decodes to %d bytes, %d were written" % (len(plain), len(written))
        if data[:3] != b"\x1f\x8b\x08":
            return "bad gzip header"
    return None


def fam_build():
    out = []
    k = 0
    for ae in (None, "gzip", "identity", "gzip;q=0", "*", "gzip, identity;q=0.5", "br", "gzip ;q=0", "", "gzip;q=0.5, identity", "*;q=0", "gzip;q=bogus"):
        for level in (0, 1, 6, 9):
            k += 1
            base = {"kind": "build", "chunk": 3, "ae": ae, "level": level, "ops": ["G", "L68656c6c6f20776f726c64", "F", "P", "X", "D"]}
            out.append(dict(base, id="bd%d" % k, method="GET"))
            out.append(dict(base, id="bd%d:h" % k, method="HEAD"))
            out.append(dict(base, id="bd%d:p" % k, method="POST"))
    # a writer that is dropped without a (non-empty) write, or after a flush only: the body must still match the coding header
    for ae in ("gzip", None, "gzip;q=0.5, identity"):
        for level in (0, 1, 6):
            for ops in (["G", "X", "D"], ["G", "L", "X", "D"], ["G", "F", "X", "D"], ["G", "F", "P", "X", "D"], ["G", "L", "F", "L", "X", "D"]):
                k += 1
                base = {"kind": "build", "chunk": 3, "ae": ae, "level": level, "ops": ops}
                out.append(dict(base, id="bd%d" % k, method="GET"))
                out.append(dict(base, id="bd%d:p" % k, method="POST"))
    # the builder methods may be called several times and in any order: only the last level counts
    for ae in ("gzip", "identity", None):
        for seq in ((0, 6), (6, 0), (0, 0, 9), (9, 1), (0, 1, 0)):
            k += 1
            base = {"kind": "build", "chunk": 3, "ae": ae, "level": seq[-1], "level_seq": list(seq), "ops": ["G", "L68656c6c6f20776f726c64", "F", "P", "X", "D"]}
            out.append(dict(base, id="bd%d" % k, method="GET"))
            out.append(dict(base, id="bd%d:h" % k, method="HEAD"))
    return out


def oracle_build(pid, sc, ob, pair=None):
    """streaming_body / should_gzip oracles (C15, C16, C17) on one observed run; `pair` = (scenario, observation) of the same request sent with GET."""
    if ob["panic"] is not None:
        return "panic: " + ob["panic"] if pid in ("C16", "C17") else None
    hd = {}
    for k_, v_ in ob["headers"]:
        hd.setdefault(k_, []).append(v_)
    res = ob["results"]
    g = next((r for r in res if r in ("g0", "g1")), None)
    if pid == "C16":
        want = py_should_gzip(sc.get("ae"))
        if want is not None and g is not None and (g == "g1") != want:
            return "should_gzip(%r) returned %s, RFC 7231 5.3.4 preference says %s" % (sc.get("ae"), g == "g1", want)
        return None
    ce = hd.get("content-encoding", [])
    if pid == "C17":
        if b"accept-encoding" not in [v.lower() for v in hd.get("vary", [])]:
            return "response without Vary: accept-encoding"
        if g is not None:
            want_ce = [b"gzip"] if (g == "g1" and sc.get("level", 6) > 0) else []
            if ce != want_ce:
                return "Content-Encoding %r but should_gzip=%s and gzip level %d" % (ce, g == "g1", sc.get("level", 6))
        if not ob["nowriter"]:
            written = b"".join(bytes.fromhex(o[1:]) for o, r in zip(sc["ops"], res) if o[0] == "L" and r == "lo")
            data, ended = b"", False
            for o, r in zip(sc["ops"], res):
                if o[0] == "P" and ">" in r:
                    ev = r.split(">", 1)[1].split("!")[0]
                    if ev[0] == "D":
                        data += bytes.fromhex(ev[1:])
                    elif ev[0] == "N":
                        ended = True
                elif o[0] == "D" and r.startswith("d") and r != "d-":
                    hexd, _frames, _shortest, t = r.split("!")[0][1:].split(":")
                    data += bytes.fromhex(hexd)
                    ended = ended or t == "N"
            if ended:
                if ce == [b"gzip"]:
                    import zlib
                    try:
                        plain = zlib.decompress(data, 31)
                    except Exception as e:
                        return "Content-Encoding: gzip but the body is not gzip data (%s)" % e
                    if plain != written:
                        return "gzip body does not decode to the written bytes"
                elif data != written:
                    return "no Content-Encoding: gzip, yet the body is not the written bytes verbatim"
        return None
    if pid == "C15":
        if sc.get("method") == "HEAD":
            if not ob["nowriter"]:
                return "streaming_body returned a writer for HEAD"
            nbytes = 0
            for o, r in zip(sc["ops"], res):
                if o[0] == "P" and ">" in r:
                    ev = r.split(">", 1)[1].split("!")[0]
                    if ev[0] == "D":
                        nbytes += len(bytes.fromhex(ev[1:]))
                elif o[0] == "D" and r.startswith("d") and r != "d-":
                    nbytes += len(bytes.fromhex(r.split("!")[0][1:].split(":")[0]))
            if nbytes:
                return "streaming_body: the HEAD response body is not empty (%d bytes came out of it)" % nbytes
            if pair is not None and pair[1]["panic"] is None:
                if sorted(pair[1]["headers"]) != sorted(ob["headers"]) or pair[1]["status"] != ob["status"]:
                    return "streaming_body: HEAD response headers %r differ from GET's %r" % (ob["headers"], pair[1]["headers"])
        return None
    return None


# ---------------------------------------------------------------- ChunkedReadFile on real files (native/file_witness.rs): bounded stand-in for C18
def file_line(sc):
    if sc["kind"] == "range":
        return "|".join([sc["id"], "range", str(sc["size"]), str(sc["a"]), str(sc["b"]), "-" if sc.get("trunc_after") is None else str(sc["trunc_after"]), str(sc.get("trunc_to", 0))])
    if sc["kind"] == "etag":
        return "|".join([sc["id"], "etag", str(sc["size"]), str(sc["secs"]), str(sc["nanos"]), sc["action"]])
    return sc["id"] + "|nonregular" + ("|" + sc["what"] if sc.get("what") else "")


def fam_file():
    out, k = [], 0
    deep = os.environ.get("VERIF_TIER") == "thorough"
    for S in (0, 1, 65535, 65536, 65537, 131072, 200001) + ((2, 65534, 131071, 131073, 196608, 262145) if deep else ()):
        pts = sorted(set(x for x in (0, 1, 65535, 65536, 65537, 131071, 131072, 131073, S - 1, S) + ((2, 65534, 196607, 196608, 196609, S // 2) if deep else ()) if 0 <= x <= S))
        for a in pts:
            for b in pts:
                if a <= b:
                    k += 1
                    out.append({"id": "fr%d" % k, "kind": "range", "size": S, "a": a, "b": b})
    for S in (65537, 131072, 200001):
        for (a, b) in ((0, S), (65536, S), (1, S - 1), (0, 65537)):
            for after in (0, 1, 2):
                for to in sorted(set(x for x in (0, a, a + 1, 65536, 65537, b - 1, b, S) if 0 <= x <= S)):
                    k += 1
                    out.append({"id": "ft%d" % k, "kind": "range", "size": S, "a": a, "b": b, "trunc_after": after, "trunc_to": to})
    for size in (0, 5):
        for (secs, nanos) in ((10 ** 9, 0), (10 ** 9, 123456789), (0, 0), (0, 500000000), (-1, 500000000), (-5, 0), (-86400, 250000000), (2 ** 31, 0), (1, 0)):
            for action in ("same", "append", "touch", "touchsec", "replace"):
                k += 1
                out.append({"id": "fe%d" % k, "kind": "etag", "size": size, "secs": secs, "nanos": nanos, "action": action})
    out.append({"id": "fn1", "kind": "nonregular"})
    # neither regular, nor a directory, nor a symlink (seed C18n: the guard rewritten as `is_dir() || is_symlink()`)
    out.append({"id": "fn2", "kind": "nonregular", "what": "chardev"})
    return out


def oracle_file(pid, sc, line):
    if pid != "C18":
        return None
    f = line.split("|")
    if sc["kind"] == "nonregular":
        return None if f[1] == "refused" else "ChunkedReadFile::new accepted %s" % ("the character device /dev/null (not a regular file)" if sc.get("what") == "chardev" else "a directory")
    if sc["kind"] == "etag":
        if f[3] != "-":
            return "ChunkedReadFile panics for a file modified at %d.%09d s: %s" % (sc["secs"], sc["nanos"], bytes.fromhex(f[3]).decode("utf8", "replace"))
        for e in (f[1], f[2]):
            if e == "none":
                return "no ETag"
            b = bytes.fromhex(e)
            if len(b) < 2 or b[:1] != b'"' or b[-1:] != b'"' or any(c == 0x22 or c < 0x21 or c > 0x7e for c in b[1:-1]):
                return "ETag %r is not a syntactically valid strong entity-tag" % b
        # judged by what the file system really recorded (inode, length, mtime) at the two opens, not by what was asked of it
        same_file = (f[4] == f[5]) if len(f) > 5 else (sc["action"] == "same")
        if same_file and f[1] != f[2]:
            return "two instances on the unmodified file have different ETags %r / %r" % (bytes.fromhex(f[1]), bytes.fromhex(f[2]))
        if not same_file and f[1] == f[2]:
            return "ETag %r unchanged after `%s` although (inode:length:mtime) went from %s to %s" % (bytes.fromhex(f[1]), sc["action"], f[4] if len(f) > 5 else "?", f[5] if len(f) > 5 else "?")
        return None
    size, a, b = sc["size"], sc["a"], sc["b"]
    if int(f[1]) != size:
        return "len() = %s for a file of %d bytes" % (f[1], size)
    if f[2] != "1":
        return "last_modified() differs from the file's modification time at construction"
    items = f[3].split(",")
    total = 0
    for it in items:
        if it[0] == "D":
            n, ok = it[1:].split(":")
            if int(n) == 0:
                return "empty chunk"
            if ok != "1":
                return "chunk bytes differ from the file bytes"
            total += int(n)
    if total > b - a:
        return "stream delivered %d bytes for a range of %d" % (total, b - a)
    last = items[-1]
    truncated = sc.get("trunc_after") is not None and sc["trunc_to"] < b
    if last == "LIMIT":
        return "stream did not terminate within 64 items (looping)"
    if last == "N" and total != b - a:
        return "stream ended cleanly after %d of %d bytes%s" % (total, b - a, " (file truncated to %d)" % sc["trunc_to"] if truncated else "")
    if last == "E" and not truncated:
        return "stream failed on an intact file"
    return None


def judge(pid, test, scs, lines):
    """First scenario of one native run that violates property `pid`: (scenario, observation line, why, paired scenario) or None."""
    is_stream = test == "stream_witness"
    if test == "file_witness":
        for sc, ln in zip(scs, lines):
            why = oracle_file(pid, sc, ln)
            if why:
                return sc, ln, why, None
        return None
    if is_stream:
        obs = {sc["id"]: (sc, parse_stream_obs(ln), ln) for sc, ln in zip(scs, lines)}
        for i, (sc, o, ln) in obs.items():
            if sc.get("kind") == "gzip":
                why = oracle_gzip(pid, sc, o)
                if why:
                    return sc, ln, why, None
            elif sc.get("kind") == "build":
                pr = obs.get(i[:-2]) if i.endswith(":h") else None
                why = oracle_build(pid, sc, o, (pr[0], pr[1]) if pr else None)
                if why:
                    return sc, ln, why, (pr[0] if pr and pid == "C15" else None)
            else:
                why = oracle_stream(pid, sc, o)
                if why:
                    return sc, ln, why, None
        return None
    if pid == "C15":
        byid = {sc["id"]: (sc, parse_obs(ln)) for sc, ln in zip(scs, lines)}
        for i, (sc, o) in byid.items():
            if i + ":h" in byid:
                why = oracle_pair_c15(sc, o, *byid[i + ":h"])
                if why:
                    return byid[i + ":h"][0], None, why, sc
    for sc, ln in zip(scs, lines):
        why = all_serve_oracles(pid, sc, parse_obs(ln))
        if why:
            return sc, ln, why, None
    return None


def fam_stream_ops(maxlen=5, chunks=(1, 2, 3)):
    out = []
    k = 0
    for cs in chunks:
        alphabet = ["W61", "W6162", "W", "L" + "63" * cs, "F", "P", "Q", "A", "X", "R"]
        for n in range(1, maxlen + 1):
            for seq in itertools.product(alphabet, repeat=n):
                if "R" not in seq and "A" not in seq and n == maxlen and seq[-1] != "P":
                    pass
                k += 1
                out.append({"id": "st%d_%d" % (cs, k), "chunk": cs, "ops": list(seq) + ["P", "P", "P", "P"]})
    return out


def fam_stream_inline():
    """The consumer polls at the earliest moment a scheduler could run it: from inside wake() (op I).  Every history parks the
    consumer first; covers wake-ups issued before the state they announce is visible, and work done after the wake-up."""
    out, k = [], 0
    for cs in (2, 4):
        tails = [["A"], ["X"], ["F"], ["W61", "F"], ["W61", "A"], ["W61", "X"], ["W61", "F", "A"], ["L" + "62" * cs], ["L" + "62" * cs, "A"], ["W61", "F", "W62", "A"], ["F", "A"], ["W", "A"], ["W61", "W62", "X"]]
        for pre in (["P"], ["P", "Q"], ["W61", "F", "P", "P"], ["P", "W61"]):
            for t in tails:
                k += 1
                out.append({"id": "in%d" % k, "chunk": cs, "ops": pre + ["I"] + t + ["P", "P", "P"]})
    return out


def fam_stream_long_writes():
    """Single `write` / `write_all` calls that cross several chunk boundaries (identity body), alone and after a pending byte."""
    out, k = [], 0
    data = bytes(range(0x41, 0x41 + 26)) * 2
    for cs in (1, 2, 4, 7):
        for n in (cs + 1, 2 * cs, 2 * cs + 1, 3 * cs + 2, 5 * cs + 1):
            for pre in ([], ["W" + data[:1].hex()], ["W" + data[:1].hex(), "F"]):
                for kind in ("W", "L"):
                    for tail in (["X", "D"], ["F", "D", "X", "D"], ["P", "X", "D"]):
                        k += 1
                        out.append({"id": "lw%d" % k, "chunk": cs, "ops": pre + [kind + data[1:1 + n].hex()] + tail})
    return out


def fam_stream_queued():
    """Everything is queued and the writer is gone before the consumer polls for the first time: 1..3 short chunks (explicit
    flushes) followed by a short, a full or an over-long write, then the drop, then polls with hints sampled at every step."""
    out, k = [], 0
    for cs in (2, 3, 4, 8):
        shorts = [1] if cs == 2 else [1, cs - 1]
        for n in (1, 2, 3):
            for lens in itertools.product(shorts, repeat=n):
                for last in ([], ["W61"], ["L" + "7a" * cs], ["L" + "7a" * (cs + 1)], ["L" + "7a" * (cs - 1)]):
                    for end in (["X"], ["A"], ["F", "X"]):
                        k += 1
                        ops = []
                        for i, ln in enumerate(lens):
                            ops += ["L" + ("%02x" % (0x61 + i)) * ln, "F"]
                        out.append({"id": "qd%d" % k, "chunk": cs, "ops": ops + last + end + ["P"] * (n + 4)})
    return out


def fam_stream_clonehook():
    """A producer step (flush / write completing a chunk / drop / abort) on another thread starts while the consumer's poll is
    cloning its waker (op K): the consumer must end up woken, or must have seen the step's effect in that very poll."""
    out, k = [], 0
    for cs in (2, 4):
        for pre in ([], ["W61"], ["W61", "F", "P"], ["P"], ["Q"], ["W61", "P", "Q"]):
            for step in ("F", "X", "A", "L" + "62" * cs, "L62"):
                for tail in (["P", "P"], ["F", "P", "P"], ["X", "P", "P"]):
                    k += 1
                    out.append({"id": "ck%d" % k, "chunk": cs, "ops": pre + ["K" + step] + tail})
    return out


def fam_stream_disconnect():
    out = []
    k = 0
    for cs in (1, 2, 4):
        for pre in ([], ["W61"], ["W61", "F"], ["W61", "F", "P"], ["L" + "62" * cs], ["P"]):
            for post in (["W61", "F"], ["L" + "63" * cs], ["F"], ["W61", "W62", "F"], ["L" + "63" * (cs + 1), "F"]):
                k += 1
                out.append({"id": "dc%d" % k, "chunk": cs, "ops": pre + ["R"] + post})
    return out


FAMILIES[("chunker", "Reader::drop")] = ("stream_witness", fam_stream_disconnect)
def _fam_chunker():
    fam = fam_stream_inline() + fam_stream_clonehook() + fam_stream_long_writes() + fam_stream_queued() + fam_stream_ops(5, (2, 3)) + fam_stream_ops(4, (1,))
    if os.environ.get("VERIF_TIER") == "thorough":
        fam += [sc for sc in fam_stream_ops(6, (2,)) if len(sc["ops"]) == 10]      # every history of exactly 6 operations (10^6) at chunk size 2
    return fam


FAMILIES[("chunker", "Reader")] = ("stream_witness", _fam_chunker)
FAMILIES[("chunker", "Writer")] = FAMILIES[("chunker", "Reader")]
FAMILIES[("gzipbody", "")] = ("stream_witness", fam_gzip)
FAMILIES[("build", "BodyWriter")] = ("stream_witness", fam_gzip)
FAMILIES[("build", "BodyWriter::write")] = ("stream_witness", lambda: fam_stream_long_writes() + fam_stream_inline() + fam_stream_disconnect())
FAMILIES[("file", "")] = ("file_witness", fam_file)
FAMILIES[("build", "")] = ("stream_witness", fam_build)
FAMILIES[("gz", "")] = ("stream_witness", fam_accept_encoding)
FAMILIES[("gz", "should_gzip")] = ("stream_witness", fam_accept_encoding)



# ---------------------------------------------------------------- RFC 7233 oracle (written from C03) for native replays
import re as _re


def rfc_resolve2(value, L):
    """Range header value (str) -> (ranges, may_ignore).  ranges: None if the value is outside the byte-range grammar of RFC 7233 2.1
    (list rule of RFC 7230 7: `element *( OWS "," OWS element )`, positions `1*DIGIT` of ANY length), else the list of
    (start, end_exclusive) C03 prescribes.  may_ignore: the value is only grammatical under a tolerant reading (unit in another
    case, OWS before the first / after the last element), so a complete 200 is acceptable as well."""
    if value[:6].lower() != "bytes=":
        return None, True
    may_ignore = value[:6] != "bytes="
    out = []
    elems = value[6:].split(",")
    if elems[0][:1] in (" ", "\t") or elems[-1][-1:] in (" ", "\t"):
        may_ignore = True
    for spec in elems:
        spec = spec.strip(" \t")
        m = _re.fullmatch(r"([0-9]*)-([0-9]*)", spec)
        if not m or (m.group(1) == "" and m.group(2) == ""):
            return None, True
        a, b = m.group(1), m.group(2)
        if a == "":
            n = min(int(b), L)
            if n > 0:
                out.append((L - n, L))
        elif b == "":
            if int(a) < L:
                out.append((int(a), L))
        else:
            if int(a) < L and int(a) <= int(b):
                out.append((int(a), min(int(b), L - 1) + 1))
    return out, may_ignore


def rfc_resolve(value, L):
    return rfc_resolve2(value, L)[0]


def oracle_range(pid, sc, ob):
    if sc.get("method", "GET") not in ("GET", "HEAD"):
        return None
    hd = {}
    for k, v in ob["headers"]:
        hd.setdefault(k, []).append(v)
    if ob["panic"] is not None:
        return ("panic: " + ob["panic"]) if pid in ("C03", "C13") else None
    rng = [v for k, v in sc.get("headers", []) if k == "range"]
    if not rng or any(k in ("if-range", "if-match", "if-none-match", "if-modified-since", "if-unmodified-since") for k, _ in sc.get("headers", [])):
        return None
    L = sc["len"]
    want, may_ignore = rfc_resolve2(rng[0], L)
    st = ob["status"]
    cr = hd.get("content-range", [None])[0]
    if pid == "C13":
        return None if st in (200, 206, 304, 400, 405, 412, 413, 416) else "status %d" % st
    if pid == "C03":
        if want is not None and may_ignore and st == 200 and cr is None:
            return None
        if want is None:
            return None if st == 200 else "Range outside the grammar but status %d" % st
        if len(want) == 0:
            if st != 416 or cr != b"bytes */%d" % L:
                return "no satisfiable range: expected 416 `bytes */%d`, got %d %r" % (L, st, cr)
        elif len(want) == 1:
            a, e = want[0]
            exp = b"bytes %d-%d/%d" % (a, e - 1, L)
            if st != 206 or cr != exp:
                return "expected 206 `%s`, got %d %r" % (exp.decode(), st, cr)
        else:
            tot = sum(e - a for a, e in want)
            if st == 206:
                if tot >= L:
                    return "multipart although the ranges alone total >= L"
            elif st == 200:
                if tot + 80 * len(want) < L / 2:
                    return "200 although ranges + 80 bytes each are under half the entity"
            else:
                return "several satisfiable ranges but status %d" % st
        return None
    if pid == "C02":
        if st == 206 and cr is not None:
            m = _re.fullmatch(rb"bytes (\d+)-(\d+)/(\d+)", cr)
            if not m:
                return "malformed Content-Range %r" % cr
            a, b, l2 = int(m.group(1)), int(m.group(2)), int(m.group(3))
            if not (a <= b < l2 and l2 == L):
                return "Content-Range %r violates a <= b < L = %d" % (cr, L)
            cl = hd.get("content-length", [None])[0]
            if cl is not None and int(cl) != b - a + 1:
                return "206 announces Content-Range %s (%d bytes) but Content-Length %s: the body cannot be the bytes the header names" % (cr.decode(), b - a + 1, cl.decode())
        return None
    return None


def fam_range_headers():
    out = []
    k = 0
    big = [2 ** 32, 2 ** 63, 2 ** 64 - 2, 2 ** 64 - 1]
    for L in (0, 1, 10, 1000):
        pos = sorted(set([0, 1, max(L - 1, 0), L, L + 1] + big))
        specs = []
        for a in pos:
            specs.append("%d-" % a)
            specs.append("-%d" % a)
            for b in pos:
                specs.append("%d-%d" % (a, b))
        for sp in specs:
            k += 1
            out.append({"id": "rg%d" % k, "method": "GET", "headers": [("range", "bytes=" + sp)], "len": L, "etag": '"x"', "lm": "1000000000.0", "scripts": ["N"], "extra_polls": 0})
        for s1 in ("0-0", "-1", "5-", "%d-" % L, "-0"):
            for s2 in ("1-1", "-2", "%d-%d" % (L, L + 5), "-%d" % (L + 1)):
                k += 1
                out.append({"id": "rg%d" % k, "method": "GET", "headers": [("range", "bytes=%s, %s" % (s1, s2))], "len": L, "etag": '"x"', "lm": "1000000000.0", "scripts": ["N", "N"], "extra_polls": 0})
    # small entities exhaustively (C03's quantifier): every spec with positions 0..L+2, alone and in pairs, with / without OWS
    for L in (1, 2, 3):
        pos = list(range(0, L + 3))
        specs = ["%d-" % a for a in pos] + ["-%d" % a for a in pos] + ["%d-%d" % (a, b) for a in pos for b in pos]
        for sp in specs:
            k += 1
            out.append({"id": "rg%d" % k, "method": "GET", "headers": [("range", "bytes=" + sp)], "len": L, "etag": '"x"', "lm": "1000000000.0", "scripts": [], "extra_polls": 0})
        if L == 3:
            for i, s1 in enumerate(specs):
                for j, s2 in enumerate(specs):
                    if (i * 7 + j) % 3 == 0:          # a third of the pairs, all specs on both sides
                        k += 1
                        sep = (",", ", ", ",\t ")[(i + j) % 3]
                        out.append({"id": "rg%d" % k, "method": "GET", "headers": [("range", "bytes=%s%s%s" % (s1, sep, s2))], "len": L, "etag": '"x"', "lm": "1000000000.0", "scripts": [], "extra_polls": 0})
    for L, pre in ((200, "0-9,10-39"), (200, "0-19,20-39"), (400, "0-19,20-39,40-159"), (201, "0-9,10-39"), (199, "0-9,10-39")):
        for tail in ("", ",100-109", ",oops", ",18446744073709551616-", ",-30", ",", ",150-", ",0-0"):
            k += 1
            out.append({"id": "rg%d" % k, "method": "GET", "headers": [("range", "bytes=" + pre + tail)], "len": L, "etag": '"x"', "lm": "1000000000.0", "scripts": [], "extra_polls": 0})
    # OWS on both sides of the comma (RFC 7230 7), numbers beyond 64 bits (1*DIGIT has no length limit), leading zeros
    for L in (10, 1000):
        for v in ("0-1 ,5-6", "0-1\t,\t5-6", "0-1 , 5-6 ,-2", "2-3 ,4-", "0-99999999999999999999", "0-18446744073709551616", "5-340282366920938463463374607431768211456",
                  "99999999999999999999-", "18446744073709551616-18446744073709551617", "-99999999999999999999", "-18446744073709551616", "00000000000000000000001-00000000000000000000002",
                  "0-1,99999999999999999999-", "18446744073709551615-", "-18446744073709551615", "0-18446744073709551615", "1-2 ", " 1-2", "1-2 , ", "1-2, ,3-4", "1 -2", "1- 2"):
            k += 1
            out.append({"id": "rg%d" % k, "method": "GET", "headers": [("range", "bytes=" + v)], "len": L, "etag": '"x"', "lm": "1000000000.0", "scripts": [], "extra_polls": 0})
    # very large entities and ranges, judged on the headers alone (HEAD: nothing is read): sizes around 2^16, 2^26, 2^32, 2^40
    for L in (2 ** 40, 2 ** 33 + 5):
        for v in ("1000-", "5-80000004", "4096-67112960", "0-4294967295", "8-4294967303", "1-4294967296", "-4294967296", "-70000000", "0-67108863", "0-67108864", "%d-" % (L - 2 ** 32), "%d-%d" % (L - 2 ** 26 - 1, L - 1)):
            k += 1
            out.append({"id": "rg%d" % k, "method": "HEAD", "headers": [("range", "bytes=" + v)], "len": L, "etag": '"x"', "lm": "1000000000.0", "scripts": [], "extra_polls": 0})
    # values that are not range requests at all (short, other units, other case, stray whitespace, empty list elements)
    for v in ("", "b", "byte", "bytes", "bytes=", "0-1", "-5", "none", "=", "bytes =0-1", "Bytes=0-1", "BYTES=0-1", "bytes=0-1,", "bytes=,0-1", "bytes=0-1,,2-3",
              "bytes=0-1 ", " bytes=0-1", "bytes=0 - 1", "bytes=-", "bytes=--1", "bytes=1--2", "bytes=a-b", "bytes=0x1-2", "bytes=+1-2", "bytes=1-2;q=1", "items=0-1", "bytes"):
        for L in (0, 10):
            k += 1
            out.append({"id": "rg%d" % k, "method": "GET", "headers": [("range", v)], "len": L, "etag": '"x"', "lm": "1000000000.0", "scripts": [], "extra_polls": 0})
    return out


FAMILIES[("range", "parse")] = ("serve_witness", fam_range_headers)



# ---------------------------------------------------------------- RFC 7232 oracle (written from C04) for native replays
import email.utils as _eu
import calendar as _cal


def http_date(secs):
    return _eu.formatdate(secs, usegmt=True)


def parse_date(v):
    try:
        t = _eu.parsedate(v)
        return _cal.timegm(t) if t else None
    except Exception:
        return None


def tag_list(v):
    """'*' -> '*'; list of tags; None if malformed."""
    if v == "*":
        return "*"
    out, i = [], 0
    while i < len(v):
        m = _re.match(r'(W/)?"[^"]*"', v[i:])
        if not m:
            return None
        out.append(m.group(0))
        i += m.end()
        j = i
        while j < len(v) and v[j] in " \t":      # OWS before the comma (RFC 7230 7: element *( OWS "," OWS element ))
            j += 1
        if j == len(v):
            return out if j == i else "trailing-ows:" + repr(out)      # OWS after the last tag: not sender grammar, tolerated or not
        if v[j] != ",":
            if j > i:
                return None
            continue                                    # a tag directly after a tag: tolerated by the implementation, no expectation
        i = j + 1
        while i < len(v) and v[i] in " \t":
            i += 1
    return out


def _opaque(t):
    return t[2:] if t.startswith("W/") else t


def expected_cond(sc):
    """Returns 412 / 304 / None (continue) per the statement of C04, or 'skip' if validators are malformed."""
    h = dict(sc.get("headers", []))
    etag = sc.get("etag")
    lm = sc.get("lm")
    lm_sec = int(lm.split(".")[0]) if lm and not lm.startswith("now") else None
    if lm_sec is not None and lm_sec < 0:
        return "skip"
    if lm and lm.startswith("now"):
        return "skip"
    im, inm = h.get("if-match"), h.get("if-none-match")
    ius, ims = h.get("if-unmodified-since"), h.get("if-modified-since")
    pf = False
    if im is not None:
        tl = tag_list(im)
        if tl is None or (isinstance(tl, str) and tl.startswith("trailing-ows")):
            return "skip"
        pf = not (tl == "*" or (etag is not None and any(t == etag and not t.startswith("W/") for t in tl)))
    elif ius is not None and lm_sec is not None:
        d = parse_date(ius)
        if d is None:
            return "skip"
        pf = d < lm_sec
    if ius is not None and parse_date(ius) is None:
        return "skip"
    if ims is not None and parse_date(ims) is None:
        return "skip"
    if pf:
        return 412
    nm = False
    if inm is not None:
        tl = tag_list(inm)
        if tl is None or (isinstance(tl, str) and tl.startswith("trailing-ows")):
            return "skip"
        nm = tl == "*" or (etag is not None and any(_opaque(t) == _opaque(etag) for t in tl))
    elif ims is not None and lm_sec is not None:
        nm = lm_sec <= parse_date(ims)
    return 304 if nm else None


def oracle_cond(pid, sc, ob):
    if pid not in ("C04", "C14"):
        return None
    if ob["panic"] is not None:
        return None
    exp = expected_cond(sc)
    if exp == "skip":
        return None
    st = ob["status"]
    if exp == 412 and st != 412:
        return "expected 412 (precondition failed per RFC 7232), got %d" % st
    if exp == 304 and st != 304:
        return "expected 304, got %d" % st
    if exp is None and st in (412, 304):
        return "expected range processing to continue, got %d" % st
    return None


def fam_cond():
    out = []
    k = 0
    LM = 1000000000
    tags = [None, "*", '"x"', '"y"', 'W/"x"', '"y", "x"', '"a, b", "x"']
    dates = [None, http_date(LM - 10), http_date(LM), http_date(LM + 10)]
    # entity-tags whose opaque part contains / ends in a backslash (an ordinary etagc: entity-tags have no quoted-pair),
    # a comma or a space; modification times 1 ns / 1 ms before the next second (C14's echo round trip)
    bs = '"C:\\data\\"'
    # OWS on both sides of the list comma, OWS after the last tag (totality only), tags that differ from the ETag in case only
    for etag in ('"x"', '"Xy"', 'W/"x"'):
        for hname in ("if-match", "if-none-match"):
            for v in ('"y" , %s', '%s ,"y"', '"y"\t,\t%s', '"y" ,  %s , "z"', '%s ', '%s\t', '"y", %s  ', '%s , ', '"y" %s', '%s "y"', '"xY"', '"XY", "xy"', 'W/"xY"', '"X"', '"y","X"'):
                k += 1
                out.append({"id": "cd%d" % k, "method": "GET", "headers": [(hname, v % etag if "%s" in v else v)], "len": 10, "etag": etag, "lm": "%d.0" % LM, "scripts": ["N"], "extra_polls": 0})
    for etag, tl in ((bs, [bs, bs + ', "foo"', '"foo", ' + bs, 'W/' + bs]), ('"foo"', [bs + ', "foo"', '"a\\", "foo"', '"\\"', '"a b", "foo"']), ('"a b"', ['"a b"', '"a", "a b"'])):
        for hname in ("if-match", "if-none-match"):
            for v in tl:
                k += 1
                out.append({"id": "cd%d" % k, "method": "GET", "headers": [(hname, v)], "len": 10, "etag": etag, "lm": "%d.0" % LM, "scripts": ["N"], "extra_polls": 0})
    for lm0 in ("0.0", "0.500000000", "1.0", "0.999999999"):
        sec0 = int(lm0.split(".")[0])
        for hs in ([("if-modified-since", http_date(sec0))], [("if-unmodified-since", http_date(sec0))], [("if-modified-since", http_date(sec0 + 1))], [("if-unmodified-since", http_date(sec0 + 1))],
                   [("if-modified-since", "garbage")], [("if-none-match", '"x"'), ("if-modified-since", http_date(sec0))]):
            k += 1
            out.append({"id": "cd%d" % k, "method": "GET", "headers": hs, "len": 10, "etag": '"x"', "lm": lm0, "scripts": ["N"], "extra_polls": 0})
    for frac in ("999999999", "999000000", "000000001", "999999000"):
        for hs in ([("if-modified-since", http_date(LM))], [("if-unmodified-since", http_date(LM))], [("if-modified-since", http_date(LM - 1))], [("if-unmodified-since", http_date(LM - 1))],
                   [("if-modified-since", http_date(LM + 1))], [("if-unmodified-since", http_date(LM + 1))]):
            for base_lm in (LM, 1700000000, 100):
                k += 1
                hs2 = [(n, http_date(base_lm + (int(parse_date(v)) - LM))) for n, v in hs]
                out.append({"id": "cd%d" % k, "method": "GET", "headers": hs2, "len": 10, "etag": '"x"', "lm": "%d.%s" % (base_lm, frac), "scripts": ["N"], "extra_polls": 0})
    for etag in (None, '"x"', 'W/"x"'):
        for lm in (None, "%d.0" % LM, "%d.500000000" % LM):
            for im in tags:
                for inm in tags:
                    for ius in dates:
                        for ims in dates:
                            hs = []
                            if im is not None: hs.append(("if-match", im))
                            if inm is not None: hs.append(("if-none-match", inm))
                            if ius is not None: hs.append(("if-unmodified-since", ius))
                            if ims is not None: hs.append(("if-modified-since", ims))
                            k += 1
                            out.append({"id": "cd%d" % k, "method": "GET", "headers": hs, "len": 10, "etag": etag, "lm": lm, "scripts": ["N"], "extra_polls": 0})
    return out


FAMILIES[("cond", "parse_modified_hdrs")] = ("serve_witness", fam_cond)
FAMILIES[("cond", "any_match")] = ("serve_witness", fam_cond)
FAMILIES[("cond", "none_match")] = ("serve_witness", fam_cond)
FAMILIES[("etag", "")] = ("serve_witness", fam_cond)



# ---------------------------------------------------------------- whole-response oracles (C02, C05, C06, C14, C15) for native replays
def content_byte(p):
    return ((p * 31 + 7) % (2 ** 64)) % 251


def entity_bytes(a, b):
    return bytes(content_byte(p) for p in range(a, b))


def _hd(ob):
    hd = {}
    for k, v in ob["headers"]:
        hd.setdefault(k, []).append(v)
    return hd


def _body(ob):
    ft = first_terminal(ob["events"])
    evs = ob["events"] if ft is None else ob["events"][:ft]
    return b"".join(e["data"] for e in evs if e["kind"] == "D"), (None if ft is None else ob["events"][ft]["kind"])


def effective_ranges(sc):
    """Resolved ranges after the If-Range gate (C05), or None when the Range header is ignored / absent / ungrammatical."""
    h = dict(sc.get("headers", []))
    if "range" not in h:
        return None
    if "if-range" in h:
        ir, et = h["if-range"], sc.get("etag")
        if not (et is not None and ir == et and not et.startswith("W/") and ir.startswith('"')):
            return None
    return rfc_resolve(h["range"], sc["len"])


def oracle_whole(pid, sc, ob):
    if ob["panic"] is not None or sc.get("len", 0) > 4096:
        return None
    if expected_cond(sc) in (412, 304, "skip"):
        if pid == "C14" and expected_cond(sc) in (412, 304):
            return _c14(sc, ob)
        return None
    hd, st, L = _hd(ob), ob["status"], sc["len"]
    method = sc.get("method", "GET")
    if method not in ("GET", "HEAD"):
        return None
    want = effective_ranges(sc)
    body, term = _body(ob)
    cr = hd.get("content-range", [None])[0]
    if pid == "C05" and "if-range" in dict(sc.get("headers", [])):
        if want is None and (st != 200 or cr is not None):
            return "If-Range does not match a strong ETag but the response is %d %r" % (st, cr)
        if want is not None and len(want) == 1 and st != 206 and not rfc_resolve2(dict(sc.get("headers", []))["range"], sc["len"])[1]:
            return "matching strong If-Range but status %d" % st
        return None
    if pid in ("C02", "C06") and method == "GET" and term == "E" and not sc.get("scripts") and st in (200, 206):
        # the scripted entity delivered every requested range correctly (default scripts), yet the body aborted
        if (pid == "C06") == (st == 206 and cr is None):
            return "the entity delivered its ranges correctly, yet the %s body reported an error instead of the bytes" % ("multipart" if cr is None and st == 206 else str(st))
    if pid == "C02" and method == "GET" and term == "N":
        if st == 200 and body != entity_bytes(0, L):
            return "200 body differs from the entity bytes"
        if st == 206 and cr is not None:
            m = _re.fullmatch(rb"bytes (\d+)-(\d+)/(\d+)", cr)
            if m and body != entity_bytes(int(m.group(1)), int(m.group(2)) + 1):
                return "206 body is not entity bytes %s" % cr.decode()
        if st == 206 and cr is None:
            # multipart: every part carries exactly the entity bytes its own Content-Range line names
            pos = 0
            while body[pos:pos + 7] == b"\r\n--B\r\n":
                he = body.find(b"\r\n\r\n", pos + 7)
                if he < 0:
                    return None
                m = _re.search(rb"Content-Range: bytes (\d+)-(\d+)/(\d+)\r\n", body[pos + 7:he + 2])
                if not m:
                    return None
                a, e = int(m.group(1)), int(m.group(2)) + 1
                if e < a or body[he + 4:he + 4 + (e - a)] != entity_bytes(a, e):
                    return "multipart part headed `bytes %d-%d` does not carry those entity bytes" % (a, e - 1)
                pos = he + 4 + (e - a)
            if pos > 0 and body[pos:] != b"\r\n--B--\r\n":
                return "multipart body carries %d bytes that no part header names (after the part ending at body offset %d)" % (len(body) - pos - 9, pos)
        return None
    if pid == "C06" and st == 206 and cr is None:
        ct = hd.get("content-type", [b""])[-1]
        if not ct.startswith(b"multipart/byteranges; boundary="):
            return "multi-range 206 without multipart/byteranges content type: %r" % ct
        if want is None or len(want) < 2:
            return "multipart response but the request does not select several ranges"
        if method != "GET" or term != "N":
            return None
        eh = b"" if "if-range" in dict(sc.get("headers", [])) else b"".join(k.encode() + b": " + (v if isinstance(v, bytes) else v.encode("latin1")) + b"\r\n" for k, v in sc.get("entity_headers", []))
        exp = b""
        for a, e in want:
            exp += b"\r\n--B\r\nContent-Range: bytes %d-%d/%d\r\n" % (a, e - 1, L) + eh + b"\r\n" + entity_bytes(a, e)
        exp += b"\r\n--B--\r\n"
        if body != exp:
            return "multipart body differs from the expected parts (got %d bytes, expected %d)" % (len(body), len(exp))
        cl = hd.get("content-length", [b"-1"])[0]
        if int(cl) != len(exp):
            return "multipart Content-Length %s but body has %d bytes" % (cl.decode(), len(exp))
        return None
    if pid == "C14":
        return _c14(sc, ob)
    return None


def _c14(sc, ob):
    hd, st = _hd(ob), ob["status"]
    if st not in (200, 206, 304, 412, 416):
        return None
    if hd.get("accept-ranges") != [b"bytes"]:
        return "missing Accept-Ranges: bytes on %d" % st
    et = sc.get("etag")
    if (et is not None) != ("etag" in hd) or (et is not None and hd["etag"] != [et.encode("latin1")]):
        return "ETag not exposed unchanged on %d" % st
    lm = sc.get("lm")
    if lm and not lm.startswith("now") and not lm.startswith("-"):
        if "date" not in hd or "last-modified" not in hd:
            return "Date / Last-Modified missing on %d" % st
        if hd["last-modified"] != [http_date(int(lm.split(".")[0])).encode()]:
            return "Last-Modified %r is not the modification time truncated to the second" % hd["last-modified"]
    ehs = [k for k, _ in sc.get("entity_headers", [])]
    def _every_value_there():
        # "every header the entity supplies": each supplied (name, value), counted with multiplicity
        for k2 in set(ehs):
            want = sorted((v if isinstance(v, bytes) else v.encode("latin1")) for kk, v in sc.get("entity_headers", []) if kk == k2)
            got = sorted(hd.get(k2, []))
            for v in set(want):
                if got.count(v) < want.count(v):
                    return False
        return True
    has = all(k in hd for k in ehs) and _every_value_there()
    none = not any(k in hd for k in ehs)
    if ehs:
        if st == 200 and not has:
            return "200 without the entity's headers"
        if st == 206 and "if-range" not in dict(sc.get("headers", [])) and "content-range" in hd and not has:
            return "206 (no If-Range) without the entity's headers"
        if st in (304, 412, 416) and not none:
            return "%d carries entity headers" % st
    return None


def oracle_pair_c15(sc_get, ob_get, sc_head, ob_head):
    if ob_get["panic"] is not None or ob_head["panic"] is not None:
        return None
    if ob_get["status"] != ob_head["status"]:
        return "HEAD status %d differs from GET status %d" % (ob_head["status"], ob_get["status"])
    strip = lambda ob: sorted((k, v) for k, v in ob["headers"] if k not in ("date", "last-modified"))
    if strip(ob_get) != strip(ob_head):
        return "HEAD headers differ from GET headers: %r vs %r" % (strip(ob_head), strip(ob_get))
    body, _ = _body(ob_head)
    if ob_head["status"] in (200, 206, 304, 416) and body:
        return "HEAD response has a body"
    if ob_head["calls"]:
        return "HEAD asked the entity for bytes %r" % (ob_head["calls"],)
    return None


def fam_glue():
    out = []
    k = 0
    L = 1000
    LM = 1000000000
    ranges = [None, "bytes=0-9", "bytes=5-", "bytes=-7", "bytes=990-2000", "bytes=1000-", "bytes=0-1,5-6", "bytes=0-0,-1,10-19", "bytes=0-600,100-700", "bytes=5-6, 0-1", "items=0-5", "bytes=abc", "bytes=0-1,2000-", "bytes=-0",
              "bytes=0-9,0-9", "bytes=0-9,0-9,20-29", "bytes=-10,990-", "bytes=5-6,-10,990-", "bytes=0-1,3-4,3-4,0-1"]
    ifr = [None, '"x"', 'W/"x"', '"y"', http_date(LM), '"x', "garbage"]
    for et in (None, '"x"', 'W/"x"'):
        for rg in ranges:
            for ir in ifr:
                for eh in ([], [("content-type", "text/plain"), ("x-extra", "a b")]):
                    hs = []
                    if rg is not None: hs.append(("range", rg))
                    if ir is not None: hs.append(("if-range", ir))
                    k += 1
                    base = {"headers": hs, "len": L, "etag": et, "lm": "%d.250000000" % LM, "entity_headers": eh, "scripts": [], "extra_polls": 1}
                    out.append(dict(base, id="gl%d" % k, method="GET"))
                    out.append(dict(base, id="gl%d:h" % k, method="HEAD"))
    # entity headers whose values are not ASCII / not UTF-8 (HeaderValue allows any obs-text) and header names in several lines
    for eh in ([("content-disposition", 'attachment; filename="caf\xe9.txt"')], [("x-a", "\xff\xfe"), ("x-a", "second"), ("x-b", "\xc3\xa9")], [("x-long", "v" * 300)]):
        for rg in (None, "bytes=0-9", "bytes=0-1,5-6", "bytes=10-19, 900-, 0-4"):
            for ir in (None, '"x"'):
                hs = ([("range", rg)] if rg else []) + ([("if-range", ir)] if ir else [])
                k += 1
                base = {"headers": hs, "len": L, "etag": '"x"', "lm": "%d.0" % LM, "entity_headers": eh, "scripts": [], "extra_polls": 1}
                out.append(dict(base, id="gl%d" % k, method="GET"))
                out.append(dict(base, id="gl%d:h" % k, method="HEAD"))
    # If-Range values that merely contain / resemble the current strong tag (C05: only a byte-identical tag counts)
    for ir in ('"y", "x"', '"x", "y"', '"x" ', '"x",', '"x"\t', '"x"junk', '"x", W/"x"', '*', '"x\\"'):
        for rg in ("bytes=0-9", "bytes=0-1,5-6"):
            k += 1
            base = {"headers": [("range", rg), ("if-range", ir)], "len": L, "etag": '"x"', "lm": "%d.0" % LM, "entity_headers": [], "scripts": [], "extra_polls": 1}
            out.append(dict(base, id="gl%d" % k, method="GET"))
            out.append(dict(base, id="gl%d:h" % k, method="HEAD"))
    for et in (None, '"x"', 'W/"x"', "x"):
        for ir in ("", "W/", '"', "x", 'W/""', '""'):
            for rg in ("bytes=0-9", "bytes=0-1,5-6"):
                k += 1
                base = {"headers": [("range", rg), ("if-range", ir)], "len": L, "etag": et, "lm": "%d.0" % LM, "entity_headers": [], "scripts": [], "extra_polls": 1}
                out.append(dict(base, id="gl%d" % k, method="GET"))
                out.append(dict(base, id="gl%d:h" % k, method="HEAD"))
    for L2 in (0, 1, 2):
        for hs in ([], [("range", "bytes=0-0")], [("range", "items=0-0")], [("range", "bytes=0-0"), ("if-range", '"nomatch"')]):
            k += 1
            base = {"headers": hs, "len": L2, "etag": '"x"', "lm": "%d.0" % LM, "entity_headers": [], "scripts": [], "extra_polls": 1}
            out.append(dict(base, id="gl%d" % k, method="GET"))
            out.append(dict(base, id="gl%d:h" % k, method="HEAD"))
    # modification times at and before the epoch (a file can carry any mtime)
    for lm in ("0.0", "0.5", "-1.0", "-86400.250000000"):
        for hs in ([], [("if-modified-since", http_date(LM))], [("if-unmodified-since", http_date(LM))], [("range", "bytes=0-1")]):
            k += 1
            base = {"headers": hs, "len": 10, "etag": '"x"', "lm": lm, "entity_headers": [], "scripts": [], "extra_polls": 1}
            out.append(dict(base, id="gl%d" % k, method="GET"))
            out.append(dict(base, id="gl%d:h" % k, method="HEAD"))
    # the same answers when the entity's Data type is a non-contiguous Buf (chunk() is only a prefix of the data)
    for m, hs in (("GET", []), ("GET", [("range", "bytes=0-9")]), ("GET", [("range", "bytes=0-1,5-6")]), ("GET", [("if-match", '"nomatch"')]), ("GET", [("if-none-match", '"x"')]),
                  ("GET", [("if-match", '"unterminated')]), ("GET", [("range", "bytes=2000-")]), ("POST", []), ("HEAD", [("if-match", '"nomatch"')])):
        k += 1
        out.append({"id": "gl%d" % k, "method": m, "headers": hs, "len": L, "etag": '"x"', "lm": "%d.0" % LM, "entity_headers": [], "scripts": [], "extra_polls": 1, "rope": True})
    # repeated header lines (C13 quantifies over them; `serve` looks at the first line of each name)
    reps = [[("range", "bytes=0-1"), ("range", "bytes=5-6")], [("range", "garbage"), ("range", "bytes=0-1")], [("if-none-match", '"a"'), ("if-none-match", '"x"')],
            [("if-match", '"a"'), ("if-match", '"x"')], [("if-range", '"x"'), ("if-range", '"y"'), ("range", "bytes=0-1")], [("if-modified-since", "garbage"), ("if-modified-since", http_date(LM))],
            [("if-unmodified-since", http_date(LM - 10)), ("if-unmodified-since", "x" * 300)], [("range", "bytes=" + "9" * 40 + "-"), ("range", "bytes=-" + "9" * 40)],
            [("if-none-match", "\xff\xfe"), ("if-match", "\x80"), ("range", "\xe9"), ("if-range", "\xe9")], [("if-none-match", '"x' + "\xe9" + '"'), ("if-none-match", "*")]]
    for hs in reps:
        for L2 in (0, 1000):
            k += 1
            base = {"headers": hs, "len": L2, "etag": '"x"', "lm": "%d.0" % LM, "entity_headers": [], "scripts": [], "extra_polls": 1, "repeated": True}
            out.append(dict(base, id="gl%d" % k, method="GET"))
            out.append(dict(base, id="gl%d:h" % k, method="HEAD"))
    for m in ("POST", "PUT", "OPTIONS", "FOO"):
        k += 1
        out.append({"id": "gl%d" % k, "method": m, "headers": [("range", "bytes=0-1")], "len": L, "etag": '"x"', "lm": "%d.0" % LM, "scripts": [], "extra_polls": 0})
    return out


def fam_fuzz_headers(n=None, seed=None):
    """Grammar-derived near-misses and noise in the conditional / range headers (C13: totality; C03/C04/C05 where the value happens
    to be grammatical).  Deterministic for a given VERIF_SEED."""
    import random
    n = n or (6000 if os.environ.get("VERIF_TIER") == "thorough" else 1500)
    rnd = random.Random(int(os.environ.get("VERIF_SEED", "0") or 0) * 7919 + 13 if seed is None else seed)
    toks = ["bytes=", "bytes", "=", "-", ",", ", ", " ", "\t", "0", "1", "9", "10", "999", "1000", "18446744073709551615", "18446744073709551616", "99999999999999999999999",
            '"', 'W/', '"x"', 'W/"x"', '"y"', "*", "\\", "\xe9", "\xff", "+", "x", "items=", ";", "q=1", http_date(1000000000), "Sun, 09 Sep 2001", "GMT", "2001-09-09T01:46:40Z"]
    names = ["range", "if-range", "if-match", "if-none-match", "if-modified-since", "if-unmodified-since"]
    out = []
    for k in range(n):
        hs = []
        for nm in rnd.sample(names, rnd.choice((1, 1, 2, 2, 3, 6))):
            v = "".join(rnd.choice(toks) for _ in range(rnd.choice((0, 1, 2, 3, 4, 6, 9))))
            if nm == "range" and rnd.random() < 0.6:
                v = "bytes=" + v
            v = v.strip(" \t")          # the http crate (and hyper) never hand over leading / trailing whitespace
            hs.append((nm, v))
        out.append({"id": "fz%d" % k, "method": rnd.choice(("GET", "GET", "GET", "HEAD", "POST")), "headers": hs, "len": rnd.choice((0, 1, 10, 1000, 2 ** 63, 2 ** 64 - 1)),
                    "etag": rnd.choice((None, '"x"', 'W/"x"')), "lm": rnd.choice((None, "1000000000.0", "1000000000.999999999", "0.0")), "entity_headers": [], "scripts": ["N", "N", "N"], "extra_polls": 1, "fuzz": True})
    return out


def oracle_method(pid, sc, ob):
    if pid != "C13" or sc.get("method", "GET") in ("GET", "HEAD") or ob["panic"] is not None:
        return None
    hd = _hd(ob)
    if ob["status"] != 405:
        return "method %s got %d, expected 405" % (sc["method"], ob["status"])
    allow = b",".join(hd.get("allow", [])).lower()
    if b"get" not in allow or b"head" not in allow:
        return "405 without Allow naming GET and HEAD: %r" % allow
    if ob["calls"]:
        return "405 but the entity was read"
    return None


for _fn in ("serve_inner", "serve", "prepare_multipart"):
    FAMILIES[("glue", _fn)] = ("serve_witness", lambda: fam_glue() + fam_cond()[::7] + fam_range_headers()[::3] + fam_fuzz_headers())


def all_serve_oracles(pid, sc, o):
    if (sc.get("repeated") or sc.get("fuzz")) and pid not in ("C13", "C12", "C20"):
        # repeated header lines and random header noise are in the domain of C13 only (totality, truthful hints, terminal
        # bodies); the functional oracles are written for the categorical products of their own properties
        return None
    return oracle_serve(pid, sc, o) or oracle_method(pid, sc, o) or oracle_range(pid, sc, o) or oracle_cond(pid, sc, o) or oracle_whole(pid, sc, o)


def try_upgrade(pid, ob, repo=None):
    """Look for a concrete failing input for the failed obligation `ob` of property `pid` on the real code: the
    scenario family closest to the failing function first, then the other families of the same unit."""
    cands = sorted(((len(fnprefix), i, v) for i, ((unit, fnprefix), v) in enumerate(FAMILIES.items())
                    if ob["unit"] == unit), key=lambda x: (not (ob["fn"] or "").startswith(_fam_prefix(x[1])), -x[0]))
    if not cands:
        ob["native_replay"] = {"status": "no witness family for this obligation", "reproduced": False}
        return
    searched, done = 0, []
    for _, _, fam in cands:
        if any(fam[1] is d for d in done):
            continue
        done.append(fam[1])
        test, gen = fam
        scs = gen()
        searched += len(scs)
        mk = _mk_line(test)
        lines = run_native(test, [mk(x) for x in scs], repo)
        hit = judge(pid, test, scs, lines)
        profile = "debug"
        if not hit and _some_panic(test, lines):
            # a debug assertion / overflow check stopped some runs: what does the optimised build (assertions off) do there?
            lines = run_native(test, [mk(x) for x in scs], repo, release=True)
            hit = judge(pid, test, scs, lines)
            profile = "release"
        if hit:
            sc, ln, why, paired = hit
            ob["native_replay"] = {"profile": profile, "status": "reproduced on the real code", "reproduced": True, "test": test, "scenario": sc, "scenario_line": mk(sc),
                                   "observation": ln, "violates": pid, "what": why, "searched": searched}
            if paired is not None:
                ob["native_replay"]["paired_with"] = mk(paired)
                ob["native_replay"]["paired_scenario"] = paired
            return
    ob["native_replay"] = {"status": "no failing input among %d scenarios" % searched, "reproduced": False, "searched": searched}


def _some_panic(test, lines):
    if test not in ("serve_witness", "stream_witness"):
        return False
    return any(not ln.rstrip().endswith("|-") for ln in lines if ln.strip())


def _mk_line(test):
    return {"stream_witness": stream_line, "file_witness": file_line}.get(test, scenario_line)


def _fam_prefix(i):
    return list(FAMILIES.keys())[i][1]


# ---------------------------------------------------------------- FsDir::get path validation (native/dir_witness.rs)
def path_refused(p):
    return p.startswith("/") or "\0" in p or ".." in p.split("/")


def fam_paths():
    segs = ["a", "sub", "..", ".", "...", "..a", "a..", "", "secret"]
    out, k = [], 0
    seen = set()
    for n in (1, 2, 3, 4):
        for combo in itertools.product(segs, repeat=n):
            for lead in ("", "/"):
                for trail in ("", "/"):
                    p = lead + "/".join(combo) + trail
                    if p in seen or len(p) == 0:
                        continue
                    seen.add(p)
                    k += 1
                    out.append({"id": "pa%d" % k, "path": p})
    for p in ("a\0", "\0a", "a/\0/b", "a/..\0", "..\0"):
        k += 1
        out.append({"id": "pa%d" % k, "path": p})
    return out




def oracle_path(pid, sc, obs):
    if pid != "C19":
        return None
    want = path_refused(sc["path"])
    got = obs == "invalid"
    if obs == "ok:ESCAPED":
        return "path %r left the base directory and read the secret file outside it" % sc["path"]
    if want and not got:
        return "path %r must be refused (absolute, NUL or `..` segment) but FsDir::get returned %s" % (sc["path"], obs)
    if got and not want:
        return "path %r is allowed by the property but was refused as invalid input" % sc["path"]
    return None


GZ_TREE = {"plain": "P", "both": "P", "both.gz": "P", "gzdir": "P", "onlygz.gz": "P", "sub/both": "P", "sub/both.gz": "P", "dir.gz": "P", "both.gz.gz": "P",
           "gzdir.gz": "D", "missing.gz": "D", "sub": "D", "dir": "D", "chardev": "P", "chardev.gz": "P", "loop": "P", "loop.gz": "E"}
GZ_CONTENT = {"plain": "P:plain", "both": "P:both", "both.gz": "Z:both", "gzdir": "P:gzdir", "onlygz.gz": "Z:onlygz", "sub/both": "P:sub/both",
              "sub/both.gz": "Z:sub/both", "dir.gz": "Z:dir", "both.gz.gz": "Z:both.gz", "chardev": "P:chardev", "chardev.gz": "", "loop": "P:loop"}


def fam_gz_siblings():
    out, k = [], 0
    for path in ("plain\0", "plain\0x", "both\0", "sub/both\0..", "\0plain", "onlygz\0", "/plain", "sub/../plain", "../gzbase/plain"):
        for ae in ("gzip", None):
            for auto in (1, 0):
                k += 1
                out.append({"id": "gs%d" % k, "kind": "gz", "path": path, "ae": ae, "auto": auto})
    for path in ("plain", "both", "gzdir", "onlygz", "missing", "sub/both", "dir", "both.gz", "sub", "nothing", "chardev", "loop"):
        for ae in (None, "gzip", "identity", "gzip;q=0", "*", "gzip;q=0.5, identity;q=0.9", "br", "gzip, identity;q=0", ""):
            for auto in (1, 0):
                k += 1
                out.append({"id": "gs%d" % k, "kind": "gz", "path": path, "ae": ae, "auto": auto})
    return out


def path_line(sc):
    if sc.get("kind") == "gz":
        return "%s|gz|%s|%s|%d" % (sc["id"], sc["path"].encode().hex(), "-" if sc["ae"] is None else sc["ae"].encode().hex(), sc["auto"])
    return "%s|%s" % (sc["id"], sc["path"].encode().hex())


def oracle_gz_sibling(pid, sc, obs):
    """C19, .gz-sibling clause: which file is opened and what encoding()/add_encoding_headers/encoding_varies report."""
    if pid != "C19":
        return None
    f = obs.split("|")
    what, enc, varies = f[0], f[1][4:], f[2][7:]
    hdrs = dict(kv.split("=", 1) for kv in f[3].split(",") if kv) if len(f) > 3 else {}
    pref = py_should_gzip(sc["ae"])
    if pref is None:
        return None
    path = sc["path"]
    if path_refused(path):
        return None if what == "invalid" else "get(%r) with Accept-Encoding %r, auto_gzip %s must be refused (absolute, NUL or `..` segment) but returned %s" % (path, sc["ae"], bool(sc["auto"]), what)
    sib = GZ_TREE.get(path + ".gz")
    want_gz = bool(sc["auto"]) and pref and sib == "P"
    if bool(sc["auto"]) and pref and sib == "E":
        # the sibling exists, is not a directory and cannot be opened: "fails the way opening that file fails"
        if what.startswith("err:") and what != "err:NotFound":
            return None
        return "get(%r) with Accept-Encoding %r, auto_gzip True: the .gz sibling exists but cannot be opened (symlink loop), yet the answer is %s instead of that error" % (path, sc["ae"], what)
    if want_gz:
        exp = "ok:file:" + GZ_CONTENT[path + ".gz"]
    elif GZ_TREE.get(path) == "P":
        exp = "ok:file:" + GZ_CONTENT[path]
    elif GZ_TREE.get(path) == "D":
        exp = "ok:dir"
    else:
        exp = "err:NotFound"
    ctx = "get(%r) with Accept-Encoding %r, auto_gzip %s" % (path, sc["ae"], bool(sc["auto"]))
    if what != exp:
        return "%s returned %s, expected %s" % (ctx, what, exp)
    if what.startswith("ok"):
        if (enc == "gzip") != want_gz or enc not in ("gzip", "none"):
            return "%s: encoding() = %s but the .gz sibling was %ssubstituted" % (ctx, enc, "" if want_gz else "not ")
        if ("content-encoding" in hdrs) != want_gz or (want_gz and bytes.fromhex(hdrs["content-encoding"]) != b"gzip"):
            return "%s: add_encoding_headers gives %r" % (ctx, hdrs)
        if ("vary" in hdrs) != bool(sc["auto"]) or (sc["auto"] and bytes.fromhex(hdrs["vary"]).lower() != b"accept-encoding"):
            return "%s: Vary header %r" % (ctx, hdrs.get("vary"))
        if varies != str(sc["auto"]):
            return "%s: encoding_varies() = %s" % (ctx, varies)
    return None


def run_paths(pid, repo=None):
    scs = fam_paths() + fam_gz_siblings()
    lines = run_native("dir_witness", [path_line(x) for x in scs], repo)
    for sc, ln in zip(scs, lines):
        obs = ln.split("|", 1)[1]
        why = oracle_gz_sibling(pid, sc, obs) if sc.get("kind") == "gz" else oracle_path(pid, sc, obs)
        if why:
            return {"status": "reproduced on the real code", "reproduced": True, "test": "dir_witness", "scenario": sc, "scenario_line": path_line(sc),
                    "observation": ln, "violates": pid, "what": why, "searched": len(scs), "bounded": "witness families fam_paths (<= 4 segments) and fam_gz_siblings"}
    return {"status": "no failing input among %d paths / sibling scenarios" % len(scs), "reproduced": False, "searched": len(scs)}


def fallback(pid, unit, repo=None):
    """Bounded native stand-in for a unit the verifier could not decide (lost anchor, unsupported construct, rlimit):
    run every witness family of the unit against the real code and apply the oracles of property `pid`.
    Returns a native_replay record for the first violating scenario, or a record with reproduced=False."""
    if unit == "path":
        return run_paths(pid, repo)
    gens = []
    for (u, _), (test, gen) in FAMILIES.items():
        if u == unit and not any(gen is g for _, g in gens):
            gens.append((test, gen))
    searched = 0
    for test, gen in gens:
        scs = gen()
        mk = _mk_line(test)
        lines = run_native(test, [mk(x) for x in scs], repo)
        searched += len(scs)
        hit = judge(pid, test, scs, lines)
        profile = "debug"
        if not hit and _some_panic(test, lines):
            lines = run_native(test, [mk(x) for x in scs], repo, release=True)
            hit = judge(pid, test, scs, lines)
            profile = "release"
        if hit:
            sc, ln, why, paired = hit
            rec = {"profile": profile, "status": "reproduced on the real code", "reproduced": True, "test": test, "scenario": sc, "scenario_line": mk(sc),
                   "observation": ln, "violates": pid, "what": why, "searched": searched, "bounded": "witness family %s" % getattr(gen, "__name__", "family")}
            if paired is not None:
                rec["paired_with"] = mk(paired)
                rec["paired_scenario"] = paired
            return rec
    return {"status": "no failing input among %d scenarios" % searched, "reproduced": False, "searched": searched}


def replay_file(path, repo=None):
    rec = json.load(open(path))
    nr = rec.get("native_replay") or {}
    print("failed obligation:", rec.get("failed_obligation"))
    print("verifier message :", rec.get("verifier_message"))
    if rec.get("verifier_output"):
        print(rec["verifier_output"])
    if not nr.get("scenario_line"):
        print("no concrete input recorded (no-failing-input-found); the obligation above is the violation")
        return 0
    batch = [nr["scenario_line"]] + ([nr["paired_with"]] if nr.get("paired_with") else [])
    out = run_native(nr["test"], batch, repo, release=(nr.get("profile") == "release"))
    ln = out[0]
    if nr["test"] == "dir_witness":
        why = (oracle_gz_sibling if nr["scenario"].get("kind") == "gz" else oracle_path)(rec["property"], nr["scenario"], ln.split("|", 1)[1])
    else:
        scs = [nr["scenario"]] + ([nr["paired_scenario"]] if nr.get("paired_scenario") else [])
        hit = judge(rec["property"], nr["test"], scs, out[:len(scs)])
        why = hit[2] if hit else None
    print("scenario   :", nr["scenario_line"])
    print("observation:", ln)
    if why:
        print("REPRODUCED on the real code: %s" % why)
        return 1
    print("not reproduced on the current tree")
    return 0


if __name__ == "__main__":
    fam = sys.argv[1]
    if fam == "pa":
        print(run_paths("C19"))
        sys.exit(0)
    if fam == "fi":
        scs = fam_file()
        lines = run_native("file_witness", [file_line(x) for x in scs])
        bad = 0
        for sc, ln in zip(scs, lines):
            why = oracle_file("C18", sc, ln)
            if why:
                bad += 1
                if bad < 12:
                    print("C18", why, file_line(sc), "\n   ", ln)
        print(len(scs), "scenarios", bad, "oracle failures")
        sys.exit(0)
    if fam in ("ae", "bd", "gz"):
        scs = {"ae": fam_accept_encoding, "bd": fam_build, "gz": fam_gzip}[fam]()
        lines = run_native("stream_witness", [stream_line(x) for x in scs])
        bad = 0
        for pid in ("C09", "C15", "C16", "C17"):
            rest_scs, rest_lines = list(scs), list(lines)
            hit = judge(pid, "stream_witness", rest_scs, rest_lines)
            if hit:
                bad += 1
                print(pid, hit[2], stream_line(hit[0]), "\n   ", hit[1])
        print(len(scs), "scenarios; properties with an oracle failure:", bad)
        sys.exit(0)
    if fam in ("st", "dc", "in", "lw"):
        scs = fam_stream_ops(int(sys.argv[2]) if len(sys.argv) > 2 else 4) if fam == "st" else (fam_stream_disconnect() if fam == "dc" else (fam_stream_inline() if fam == "in" else fam_stream_long_writes()))
        lines = run_native("stream_witness", [stream_line(x) for x in scs])
        bad = {}
        for sc, ln in zip(scs, lines):
            o = parse_stream_obs(ln)
            for pid in ("C08", "C10", "C11", "C12", "C20"):
                why = oracle_stream(pid, sc, o)
                if why:
                    bad[pid] = bad.get(pid, 0) + 1
                    if bad[pid] < 4:
                        print(pid, why, stream_line(sc), "\n   ", ln)
        print(len(scs), "scenarios; oracle failures:", bad)
        sys.exit(0)
    scs = {"mp": fam_multipart_faults, "sg": fam_single_faults, "rg": fam_range_headers, "cd": fam_cond, "gl": fam_glue, "fz": fam_fuzz_headers}[fam]()
    lines = run_native("serve_witness", scs)
    bad = 0
    for sc, ln in zip(scs, lines):
        o = parse_obs(ln)
        for pid in ("C01", "C02", "C03", "C04", "C05", "C06", "C07", "C12", "C13", "C14", "C20"):
            why = all_serve_oracles(pid, sc, o)
            if why:
                bad += 1
                if bad < 15:
                    print(pid, why, scenario_line(sc), "\n   ", ln)
    byid = {sc["id"]: (sc, parse_obs(ln)) for sc, ln in zip(scs, lines)}
    for i, (sc, o) in byid.items():
        if i + ":h" in byid:
            why = oracle_pair_c15(sc, o, *byid[i + ":h"])
            if why:
                bad += 1
                print("C15", why, scenario_line(sc))
    print(len(scs), "scenarios", bad, "oracle failures")
