"""Engine K: Kani/CBMC harnesses on the real crate (scratch copy, harness modules attached under cfg(kani)).

Only leaf functions over bytes / strings / integers are done here (DESIGN.md 2.2).  Every harness is a plain
#[kani::proof] whose inputs are kani::any(); a harness is labelled *bounded* with its bound unless its only loops run
over a concrete template string.  Results are cached by content (sources + harness text + tool version)."""
import hashlib
import json
import os
import re
import resource
import shutil
import subprocess
import time

VERIF = os.path.dirname(os.path.dirname(os.path.abspath(__file__)))
KDIR = os.path.join(VERIF, "build", "kani")

ATTACH = [("src/lib.rs", "k_lib.rs", "verif_kani_lib"), ("src/range.rs", "k_range.rs", "verif_kani_range")]

GROUPS = {
    "K1": {
        "what": "range::parse on the real `str` code (split / find / trim_matches / slicing), parse_pos stubbed so every number "
                "is an unconstrained u64 or unparseable; oracle = RFC 7233 resolver written from C03.  The real parse_pos (digit loop, saturation) "
                "on all ASCII strings of <= 4 bytes and on the 20-digit values around 2^64",
        "harnesses": {"k1_closed": "bytes=1-2", "k1_from": "bytes=1-", "k1_suffix": "bytes=-1", "k1_other_unit": "items=1-2 / bytes=12", "k1_signed_positions": "bytes=+1-2 / bytes=1-+2 / bytes=-+2 (real parse_pos)",
                      "k1p_parse_pos_ascii_len_le_4": "parse_pos: ascii, len <= 4", "k1p_parse_pos_around_2_64": "parse_pos: 1844674407370955161d, 23 nines"},
        "thorough": {"k1_two_ows": "bytes=1-2, \\t-3", "k1_leading_ows": "bytes= \\t1-2", "k1_two_from": "bytes=1-,2-3", "k1_ows_before_comma": "bytes=1-2 \\t, -3"},
        "tags": ["C03", "C02", "C13"],
        "bound": "complete in all numbers and the entity length for each header template; bounded to the listed template shapes (1 spec; 2 specs with OWS in the thorough tier)",
        "functions": [{"fn": "range::parse", "source": "src/range.rs", "engine": "kani"}],
        "trusted": ["#[kani::stub(parse_pos)] in the template harnesses: number lexing replaced by an unconstrained Option<u64> (kani/k_range.rs); parse_pos itself is checked by the k1p harnesses (bounded) and proved by Verus (unit range)"],
    },
    "K4": {
        "what": "parse_qvalue (src/lib.rs) on every ASCII string of length <= 6 against the RFC 7231 5.3.1 grammar; no panic, grammatical qvalues get their value",
        "harnesses": {"k4_parse_qvalue_ascii_len_le_6": "ascii, len <= 6"},
        "thorough": {},
        "tags": ["C16"],
        "bound": "bounded: ASCII strings of length <= 6 (every grammatical qvalue has at most 5 bytes)",
        "functions": [{"fn": "parse_qvalue", "source": "src/lib.rs", "engine": "kani"}],
        "trusted": [],
    },
}


def _sha(paths, extra=""):
    h = hashlib.sha256(extra.encode())
    for p in paths:
        with open(p, "rb") as f:
            h.update(f.read())
    return h.hexdigest()[:20]


def _limits():
    # address-space cap: CBMC blow-ups are killed (inconclusive), never left to exhaust the machine
    resource.setrlimit(resource.RLIMIT_AS, (24 << 30, 24 << 30))


def _prepare(repo):
    d = os.path.join(KDIR, hashlib.sha256(os.path.abspath(repo).encode()).hexdigest()[:8])
    dst = os.path.join(d, "repo")
    os.makedirs(dst, exist_ok=True)
    subprocess.run(["rsync", "-a", "--delete", "--exclude", "target", "--exclude", ".git", repo.rstrip("/") + "/", dst + "/"], check=True)
    for src, hf, mod in ATTACH:
        with open(os.path.join(dst, src), "a") as f:
            f.write('\n#[cfg(kani)] #[path = "%s"] mod %s;\n' % (os.path.join(VERIF, "kani", hf), mod))
    return d, dst


def _run_harness(d, dst, h, timeout):
    env = dict(os.environ, CARGO_NET_OFFLINE="true", CARGO_TARGET_DIR=os.path.join(d, "target"))
    t0 = time.time()
    try:
        p = subprocess.run(["cargo", "kani", "-Z", "stubbing", "--harness", h], cwd=dst, env=env, stdout=subprocess.PIPE, stderr=subprocess.STDOUT,
                           text=True, timeout=timeout, preexec_fn=_limits)
        out = p.stdout
    except subprocess.TimeoutExpired as e:
        return {"harness": h, "status": "inconclusive", "reason": "timeout after %ds" % timeout, "wall_s": time.time() - t0, "checks": 0, "failed": 0, "failed_checks": []}
    wall = time.time() - t0
    m = re.search(r"\*\* (\d+) of (\d+) failed", out)
    failed, checks = (int(m.group(1)), int(m.group(2))) if m else (0, 0)
    fc = re.findall(r"Failed Checks: (.*)\n\s*File: \"([^\"]+)\", line (\d+)", out)
    cov = re.search(r"\*\* (\d+) of (\d+) cover properties satisfied", out)
    if "VERIFICATION:- SUCCESSFUL" in out:
        st = "ok"
        if cov and cov.group(1) != cov.group(2):
            st, reason = "inconclusive", "vacuity: only %s of %s cover properties satisfied" % (cov.group(1), cov.group(2))
            return {"harness": h, "status": st, "reason": reason, "wall_s": wall, "checks": checks, "failed": 0, "failed_checks": []}
        return {"harness": h, "status": "ok", "wall_s": wall, "checks": checks, "failed": 0, "failed_checks": [], "covers": cov.group(0) if cov else None}
    if "VERIFICATION:- FAILED" in out and fc:
        # unwinding assertion failures mean the bound was too small: that is a tool limit, not a violation
        if all("unwinding assertion" in x[0] for x in fc):
            return {"harness": h, "status": "inconclusive", "reason": "unwinding assertion failed (bound too small)", "wall_s": wall, "checks": checks, "failed": failed, "failed_checks": []}
        return {"harness": h, "status": "fail", "wall_s": wall, "checks": checks, "failed": failed,
                "failed_checks": [{"what": a, "file": b, "line": int(c)} for a, b, c in fc if "unwinding assertion" not in a], "tail": out[-1500:]}
    return {"harness": h, "status": "inconclusive", "reason": "no verdict from cargo kani: " + out[-400:].replace("\n", " | "), "wall_s": wall, "checks": checks, "failed": failed, "failed_checks": []}


def run_groups(groups, tier, repo, pid):
    repo = repo or os.environ.get("VERIF_REPO", "/repo")
    out = {}
    os.makedirs(os.path.join(KDIR, "cache"), exist_ok=True)
    ver = subprocess.run(["cargo", "kani", "--version"], stdout=subprocess.PIPE, stderr=subprocess.STDOUT, text=True).stdout.strip()
    d = dst = None
    for g in groups:
        cfg = GROUPS[g]
        hs = dict(cfg["harnesses"])
        if tier == "thorough":
            hs.update(cfg["thorough"])
        srcs = sorted(os.path.join(repo, "src", f) for f in os.listdir(os.path.join(repo, "src")) if f.endswith(".rs"))
        key = _sha(srcs + [os.path.join(VERIF, "kani", a[1]) for a in ATTACH] + [os.path.join(repo, "Cargo.lock")], ver + g + tier)
        cpath = os.path.join(KDIR, "cache", key + ".json")
        results, cached = None, False
        if os.path.exists(cpath) and os.environ.get("VERIF_NO_CACHE") != "1":
            results, cached = json.load(open(cpath)), True
        else:
            if d is None:
                d, dst = _prepare(repo)
            results = []
            to = 420 if tier == "quick" else 2400
            for h in hs:
                results.append(_run_harness(d, dst, h, to))
            if not any(r["status"] == "inconclusive" and "timeout" in r.get("reason", "") for r in results):
                json.dump(results, open(cpath, "w"))
        failures, inconc = [], []
        for r in results:
            if r["status"] == "fail":
                for fcheck in r["failed_checks"]:
                    # a failing harness assertion is a functional mismatch with the oracle; any other failing check
                    # (overflow, index, unwrap, ...) inside the crate is a panic: C13 plus the unit's first property
                    functional = os.path.basename(fcheck["file"]).startswith("k_") and "assertion failed" in fcheck["what"]
                    ftags = [t for t in cfg["tags"] if t != "C13"] if functional else (["C13"] if "C13" in cfg["tags"] else []) + cfg["tags"][:1]
                    failures.append({"unit": "kani:" + g, "fn": cfg["functions"][0]["fn"], "kind": "kani_check", "engine": "kani", "label": r["harness"],
                                     "id": "kani:%s::%s::%s" % (g, r["harness"], re.sub(r"\W+", "_", fcheck["what"])[:60]), "tags": sorted(set(ftags)),
                                     "message": "Kani: %s (%s:%d) on template `%s`" % (fcheck["what"], os.path.basename(fcheck["file"]), fcheck["line"], hs.get(r["harness"], "")),
                                     "at": "%s:%d" % (fcheck["file"], fcheck["line"]), "exit": None, "rendered": r.get("tail", "")})
            elif r["status"] == "inconclusive":
                inconc.append("%s: %s" % (r["harness"], r.get("reason")))
        ok = [r for r in results if r["status"] == "ok"]
        out[g] = {
            "status": "inconclusive" if inconc and not failures else ("fail" if failures else "ok"),
            "reason": "; ".join(inconc),
            "obligations": len(results), "discharged": len(ok),
            "failures": failures,
            "samples": [{"obligation": "kani:%s::%s" % (g, r["harness"]), "status": r["status"], "backend": "kani 0.68 / cbmc 6.11", "checks": r.get("checks"),
                         "template": hs.get(r["harness"]), "bounded": cfg["bound"]} for r in results],
            "trusted": ["[kani:%s] %s" % (g, t) for t in cfg["trusted"]],
            "functions": cfg["functions"],
            "summary": {"status": "fail" if failures else ("inconclusive" if inconc else "ok"), "harnesses": len(results), "cbmc_checks": sum(r.get("checks", 0) for r in results),
                        "wall_s": round(sum(r.get("wall_s", 0) for r in results), 1), "cached": cached, "backend": ver, "what": cfg["what"], "bound": cfg["bound"],
                        "cmd": "cargo kani -Z stubbing --harness <h>  (scratch copy of /repo with kani/%s attached under cfg(kani))" % ", ".join(a[1] for a in ATTACH)},
        }
    return out
