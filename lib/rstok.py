"""Small Rust tokenizer + item locator (strings, chars, lifetimes, nested comments, brace matching).

Only what the extractor needs: it never interprets Rust, it finds the text span of an item.
"""
import re
from collections import namedtuple

Tok = namedtuple("Tok", "kind text start end")  # kind: id, punct, str, char, life, num, comment

_ID = re.compile(r"[A-Za-z_][A-Za-z0-9_]*")
_NUM = re.compile(r"[0-9][0-9A-Za-z_]*(\.[0-9][0-9A-Za-z_]*)?")


class LexError(Exception):
    pass


def tokenize(src, keep_comments=False):
    toks = []
    i, n = 0, len(src)
    while i < n:
        c = src[i]
        if c.isspace():
            i += 1
            continue
        if src.startswith("//", i):
            j = src.find("\n", i)
            j = n if j < 0 else j
            if keep_comments:
                toks.append(Tok("comment", src[i:j], i, j))
            i = j
            continue
        if src.startswith("/*", i):
            depth, j = 1, i + 2
            while j < n and depth:
                if src.startswith("/*", j):
                    depth += 1
                    j += 2
                elif src.startswith("*/", j):
                    depth -= 1
                    j += 2
                else:
                    j += 1
            if depth:
                raise LexError("unterminated block comment")
            if keep_comments:
                toks.append(Tok("comment", src[i:j], i, j))
            i = j
            continue
        # raw strings r"..", r#".."#, br"..", b".."
        m = re.match(r"(b?r)(#*)\"", src[i:i + 40])
        if m:
            hashes = m.group(2)
            close = '"' + hashes
            j = src.find(close, i + len(m.group(0)))
            if j < 0:
                raise LexError("unterminated raw string")
            j += len(close)
            toks.append(Tok("str", src[i:j], i, j))
            i = j
            continue
        if c == '"' or (c == "b" and i + 1 < n and src[i + 1] == '"'):
            j = i + (2 if c == "b" else 1)
            while j < n and src[j] != '"':
                j += 2 if src[j] == "\\" else 1
            if j >= n:
                raise LexError("unterminated string")
            j += 1
            toks.append(Tok("str", src[i:j], i, j))
            i = j
            continue
        if c == "'" or (c == "b" and i + 1 < n and src[i + 1] == "'"):
            k = i + (1 if c == "b" else 0)
            # char literal or lifetime
            if k + 1 < n and src[k + 1] == "\\":
                j = k + 2
                while j < n and src[j] != "'":
                    j += 1
                j += 1
                toks.append(Tok("char", src[i:j], i, j))
                i = j
                continue
            if k + 2 < n and src[k + 2] == "'":
                toks.append(Tok("char", src[i:k + 3], i, k + 3))
                i = k + 3
                continue
            m = _ID.match(src, k + 1)
            if m and c == "'":
                toks.append(Tok("life", src[i:m.end()], i, m.end()))
                i = m.end()
                continue
            # multi-byte char literal
            j = src.find("'", k + 1)
            if j < 0:
                raise LexError("bad quote")
            toks.append(Tok("char", src[i:j + 1], i, j + 1))
            i = j + 1
            continue
        m = _ID.match(src, i)
        if m:
            toks.append(Tok("id", m.group(0), i, m.end()))
            i = m.end()
            continue
        m = _NUM.match(src, i)
        if m:
            toks.append(Tok("num", m.group(0), i, m.end()))
            i = m.end()
            continue
        toks.append(Tok("punct", c, i, i + 1))
        i += 1
    return toks


OPEN = {"(": ")", "[": "]", "{": "}"}
CLOSE = {v: k for k, v in OPEN.items()}


def match_close(toks, i):
    """toks[i] is an opening bracket; return index of its matching close."""
    assert toks[i].text in OPEN, toks[i]
    depth = 0
    for j in range(i, len(toks)):
        t = toks[j]
        if t.kind != "punct":
            continue
        if t.text in OPEN:
            depth += 1
        elif t.text in CLOSE:
            depth -= 1
            if depth == 0:
                return j
    raise LexError("unbalanced bracket at offset %d" % toks[i].start)


def skip_angle(toks, i):
    """toks[i] is '<' opening generics; return index after matching '>' ("->" aware)."""
    depth = 0
    j = i
    while j < len(toks):
        t = toks[j]
        if t.kind == "punct":
            if t.text == "<":
                depth += 1
            elif t.text == ">" and not (j > 0 and toks[j - 1].text == "-" and toks[j - 1].end == t.start):
                depth -= 1
                if depth == 0:
                    return j + 1
            elif t.text in OPEN:
                j = match_close(toks, j)
        j += 1
    raise LexError("unbalanced <")


class Item:
    def __init__(self, kind, name, start, end, hdr_end=None, body_open=None, body_close=None, trait=None, sub=None):
        self.kind, self.name, self.start, self.end = kind, name, start, end
        self.hdr_end = hdr_end          # offset of '{' (fn/impl/struct with braces)
        self.body_open, self.body_close = body_open, body_close  # offsets of '{' and '}'
        self.trait = trait
        self.sub = sub or []

    def __repr__(self):
        return "Item(%s %s%s)" % (self.kind, (self.trait + " for ") if self.trait else "", self.name)


ITEM_KW = {"fn", "impl", "struct", "enum", "const", "static", "mod", "trait", "type", "use", "macro_rules", "extern", "union"}
QUAL = {"pub", "unsafe", "async", "default"}


def _impl_header(toks, i, j):
    """tokens i..j (exclusive) are between `impl` and `{`; return (trait, type)."""
    k = i
    if k < j and toks[k].text == "<":
        k = skip_angle(toks, k)
    # cut where clause
    hdr = []
    while k < j:
        t = toks[k]
        if t.kind == "id" and t.text == "where":
            break
        if t.text == "<":
            k = skip_angle(toks, k)
            continue
        hdr.append(t)
        k += 1
    names = [t.text for t in hdr if t.kind == "id" or t.text == "!"]
    # names like: futures_core Stream for MultipartStream  | Writer | Drop for Writer
    if "for" in names:
        p = names.index("for")
        trait = names[p - 1] if p > 0 else None
        typ = names[-1]
    else:
        trait, typ = None, names[-1] if names else None
    return trait, typ


def parse_items(src, toks=None, lo=0, hi=None):
    """Parse the item structure between token indices lo..hi (a module or impl body)."""
    if toks is None:
        toks = tokenize(src)
    if hi is None:
        hi = len(toks)
    items = []
    i = lo
    while i < hi:
        t = toks[i]
        start_tok = i
        # attributes
        while i < hi and toks[i].text == "#":
            k = i + 1
            if k < hi and toks[k].text == "!":
                k += 1
            if k < hi and toks[k].text == "[":
                i = match_close(toks, k) + 1
            else:
                break
        if i >= hi:
            break
        # qualifiers
        while i < hi and toks[i].kind == "id" and toks[i].text in QUAL:
            i += 1
            if i < hi and toks[i].text == "(" and toks[i - 1].text == "pub":
                i = match_close(toks, i) + 1
        if i >= hi:
            break
        t = toks[i]
        if t.kind == "id" and t.text == "extern" and i + 1 < hi and toks[i + 1].kind == "str":
            i += 2
            t = toks[i]
        if t.kind != "id" or t.text not in ITEM_KW:
            # not an item start (e.g. stray token / macro invocation): skip to ';' or balanced block
            if t.text in OPEN:
                i = match_close(toks, i) + 1
            else:
                i += 1
            continue
        kw = t.text
        if kw == "const" and i + 1 < hi and toks[i + 1].text == "fn":
            i += 1
            kw = "fn"
        if kw == "const" and i + 1 < hi and toks[i + 1].text == "_":
            name = "_"
        else:
            name = toks[i + 1].text if i + 1 < hi else ""
        # find end: first ';' or '{' at bracket depth 0
        j = i + 1
        end = None
        body_open = body_close = None
        if kw == "impl":
            while toks[j].text != "{":
                if toks[j].text in ("(", "["):
                    j = match_close(toks, j)
                j += 1
            trait, typ = _impl_header(toks, i + 1, j)
            c = match_close(toks, j)
            it = Item("impl", typ, toks[start_tok].start, toks[c].end, toks[j].start, toks[j].start, toks[c].start, trait=trait)
            it.sub = parse_items(src, toks, j + 1, c)
            items.append(it)
            i = c + 1
            continue
        if kw == "macro_rules":
            # macro_rules! name { ... }  or ( ... );
            j = i + 1
            while toks[j].text not in OPEN:
                j += 1
            c = match_close(toks, j)
            name = toks[i + 2].text
            items.append(Item("macro_rules", name, toks[start_tok].start, toks[c].end))
            i = c + 1
            if i < hi and toks[i].text == ";":
                i += 1
            continue
        while j < hi:
            tj = toks[j]
            if tj.text == ";":
                end = j
                break
            if tj.text == "{":
                body_open = j
                body_close = match_close(toks, j)
                end = body_close
                break
            if tj.text in ("(", "["):
                j = match_close(toks, j)
            elif tj.text == "<" and kw in ("fn", "struct", "enum", "trait", "type"):
                # generics may contain braces only in const generics; skip safely
                try:
                    j = skip_angle(toks, j) - 1
                except LexError:
                    pass
            elif tj.text == "=" and kw in ("const", "static", "type"):
                # initializer: scan to ';' at depth 0 (skipping any blocks)
                k = j + 1
                while toks[k].text != ";":
                    if toks[k].text in OPEN:
                        k = match_close(toks, k)
                    k += 1
                end = k
                break
            j += 1
        if end is None:
            break
        # struct Foo(..) ; tuple struct / struct with where clause handled by the ';'
        it = Item(kw, name, toks[start_tok].start, toks[end].end)
        if body_open is not None:
            it.hdr_end = toks[body_open].start
            it.body_open, it.body_close = toks[body_open].start, toks[body_close].start
            if kw in ("mod", "trait"):
                it.sub = parse_items(src, toks, body_open + 1, body_close)
        it.kw_start = toks[i].start
        items.append(it)
        i = end + 1
    return items


def find_item(src, path):
    """path: list of selectors, e.g. ["fn serve_inner"], ["impl Stream for ExactLenStream", "fn poll_next"],
    ["impl Writer", "fn abort"], ["struct Shared"].  `mod tests` is never searched."""
    items = parse_items(src)

    def select(items, sel):
        parts = sel.split()
        nth = None
        if parts[-1].startswith("#"):
            nth = int(parts[-1][1:])
            parts = parts[:-1]
        out = _select(items, parts)
        if nth is not None:
            return out[nth - 1:nth]
        return out

    def _select(items, parts):
        out = []
        if parts[0] == "impl":
            if "for" in parts:
                trait, typ = parts[1], parts[3]
            else:
                trait, typ = None, parts[1]
            for it in items:
                if it.kind == "impl" and it.name == typ and it.trait == trait:
                    out.append(it)
        else:
            kind, name = parts[0], parts[1]
            for it in items:
                if it.kind == kind and it.name == name:
                    out.append(it)
        return out

    cur = [it for it in items if not (it.kind == "mod" and it.name == "tests")]
    found = None
    for depth, sel in enumerate(path):
        cands = select(cur, sel)
        if depth + 1 < len(path):
            # several impl blocks may match (e.g. two inherent impls): search all
            if not cands:
                return None
            cur = [s for c in cands for s in c.sub]
        else:
            if len(cands) != 1:
                return None if not cands else ("ambiguous", cands)
            found = cands[0]
    return found


def fn_params(src, item):
    """Return (names, sig_text) of a fn item: parameter names in order."""
    sig = src[item.kw_start:item.hdr_end] if item.hdr_end else src[item.kw_start:item.end]
    toks = tokenize(sig)
    # toks[0] == fn, toks[1] == name
    i = 2
    if toks[i].text == "<":
        i = skip_angle(toks, i)
    assert toks[i].text == "(", sig
    c = match_close(toks, i)
    names = []
    k = i + 1
    first = True
    depth_start = k
    while k < c:
        # one parameter: scan to the top-level comma
        e = k
        while e < c and toks[e].text != ",":
            if toks[e].text in OPEN:
                e = match_close(toks, e)
            elif toks[e].text == "<":
                e = skip_angle(toks, e) - 1
            e += 1
        ptoks = toks[k:e]
        # attribute-free; name is ident before ':' or self
        nm = None
        for idx, pt in enumerate(ptoks):
            if pt.kind == "id" and pt.text == "self":
                nm = "self"
                break
            if pt.text == ":":
                # previous ident
                for q in range(idx - 1, -1, -1):
                    if ptoks[q].kind == "id" and ptoks[q].text not in ("mut", "ref"):
                        nm = ptoks[q].text
                        break
                    if ptoks[q].text == "_":
                        nm = "_"
                        break
                break
        if nm:
            names.append(nm)
        k = e + 1
    return names, " ".join(sig.split())
