"""Rewrite-rule catalogue (DESIGN.md section 2.1).  Each rule is a fixed, local, textual rewrite with a stated
reason; none contains http-serve logic.  A rule returns (new_text, number_of_applications).  Rules are applied
only to the functions whose //@fn directive names them; the number of applications is reported in the evidence.
"""
import re
from rstok import tokenize, match_close

RULES = {}
DOC = {}


def rule(name, doc):
    def deco(f):
        RULES[name] = f
        DOC[name] = doc
        return f
    return deco


def _subn(pairs, text):
    n = 0
    for pat, rep in pairs:
        text, k = re.subn(pat, rep, text)
        n += k
    return text, n


def _find_call(text, start_pat):
    """Find `start_pat(` ... matching `)`; yields (m_start, open_paren_off, close_paren_off)."""
    out = []
    for m in re.finditer(start_pat, text):
        o = m.end() - 1
        assert text[o] == "("
        depth = 0
        i = o
        # respect strings/chars via tokenizer on the remainder
        toks = tokenize(text[o:])
        c = match_close(toks, 0)
        out.append((m.start(), o, o + toks[c].start))
    return out


def _split_top(s, sep=","):
    toks = tokenize(s)
    parts, last, i = [], 0, 0
    while i < len(toks):
        t = toks[i]
        if t.text in ("(", "[", "{"):
            i = match_close(toks, i)
        elif t.text == "|" :
            pass
        elif t.text == sep:
            parts.append(s[last:t.start])
            last = t.end
        i += 1
    parts.append(s[last:])
    return parts


@rule("R1", "Pin has no run-time effect for Unpin types: `Pin::into_inner(self)` -> `self`; `poll_next_unpin(cx)` "
            "(StreamExt: `Pin::new(self).poll_next(cx)`) -> `poll_next(cx)`; `x.get_mut().as_mut().poll_next(cx)` "
            "(SyncWrapper::get_mut + Pin::as_mut) -> `x.poll_next(cx)`; `self.as_mut()` on Pin<&mut Self> -> `self`.")
def r1(text):
    return _subn([
        (r"\bPin::into_inner\(self\)", "self"),
        (r"\.poll_next_unpin\(", ".poll_next("),
        (r"\.get_mut\(\)\s*\.as_mut\(\)\s*\.poll_next\(", ".poll_next("),
        (r"\bself\s*\.as_mut\(\)\s*\.project\(\)", "self"),
        (r"\bself\.as_mut\(\)", "self"),
        (r"\bself\.project\(\)", "self"),
        (r"\bBodyStreamProj::", "BodyStream::"),
        (r"#\[pin\]\s*", ""),
    ], text)


@rule("R4", "Mutex critical section -> atomic block on the protected value: `let mut l = X.lock().expect(\"not poisoned\");` -> "
            "`let l = &mut X;` (also the two-statement form `let shared = &self.shared; let mut l = shared.lock()...`); "
            "`X.lock().expect(..)` in expression position -> `(&X)`; `drop(l);` deleted; `Arc::new(Mutex::new(V))` -> `V`.  "
            "Assumed: std::sync::Mutex gives mutual exclusion and is never poisoned; Arc::clone yields a handle to the same value.  The reading is 'one critical section per call = one atomic step of the system model'; a function that takes the lock more than once is outside it and is handed to the bounded native stand-in (exit 2 unless that finds a failing schedule).")
def r4(text):
    t, n0 = re.subn(r"let\s+shared\s*=\s*&self\.shared;(\s*)let\s+mut\s+(\w+)\s*=\s*shared\.lock\(\)\.expect\(\"not poisoned\"\);", r"\1let \2 = &mut self.shared;", text)
    t, n1 = re.subn(r"let\s+mut\s+(\w+)\s*=\s*([\w\.]+)\.lock\(\)\.expect\(\"not poisoned\"\);", r"let \1 = &mut \2;", t)
    t, n2 = re.subn(r"([\w\.]+)\.lock\(\)\.expect\(\"not poisoned\"\)", r"(&\1)", t)
    t, n3 = re.subn(r"\bdrop\(l\);", "", t)
    n4 = 0
    while True:
        m = re.search(r"\bArc::new\(Mutex::new\(", t)
        if not m:
            break
        o = m.end() - 1   # inner '('
        toks = tokenize(t[o:])
        c = o + toks[match_close(toks, 0)].start      # inner ')'
        # outer ')' follows
        rest = t[c + 1:]
        k = len(rest) - len(rest.lstrip())
        assert rest[k] == ")"
        t = t[:m.start()] + t[o + 1:c] + rest[:k] + rest[k + 1:]
        n4 += 1
    return t, n0 + n1 + n2 + n3 + n4


@rule("R5", "Run-time assertions become proof obligations: `debug_assert_eq!(a, b)` -> `assert(a == b)`; "
            "`assert!(c)` -> `let c_ = c; assert(c_);` (stronger than the run-time check).")
def r5(text):
    n = 0
    out = text
    for mac, eq in (("debug_assert_eq!", True), ("assert_eq!", True), ("debug_assert!", False), ("assert!", False)):
        while True:
            calls = _find_call(out, r"(?<![\w!])" + re.escape(mac) + r"\(")
            if not calls:
                break
            s, o, c = calls[0]
            inner = out[o + 1:c]
            if eq:
                a, b = _split_top(inner)[:2]
                rep = "assert(%s == %s)" % (a.strip(), b.strip())
            else:
                rep = "{ let assert_cond_ = %s; assert(assert_cond_); }" % inner.strip()
            out = out[:s] + rep + out[c + 1:]
            n += 1
    return out, n


def _receiver_start(text, dot_off):
    """Offset where the postfix-expression ending just before text[dot_off] == '.' starts."""
    toks = tokenize(text[:dot_off])
    i = len(toks) - 1
    while i >= 0:
        t = toks[i]
        if t.text in (")", "]"):
            # find matching open
            depth = 0
            while i >= 0:
                if toks[i].text in (")", "]", "}"):
                    depth += 1
                elif toks[i].text in ("(", "[", "{"):
                    depth -= 1
                    if depth == 0:
                        break
                i -= 1
            i -= 1
            continue
        if t.kind == "id" and t.text in ("match", "if", "let", "return", "in", "else", "while", "mut", "ref", "move", "as"):
            break
        if t.kind in ("id", "num", "str") or t.text in ("?",):
            i -= 1
            continue
        if t.text == "." or (t.text == ":" and i > 0 and toks[i - 1].text == ":"):
            i -= 2 if t.text == ":" else 1
            continue
        break
    return toks[i + 1].start


@rule("R7", "Definition of Result::map_err with a closure that ignores its argument: `X.map_err(|_| E)` -> "
            "`match X { Ok(v_) => Ok(v_), Err(_) => Err(E) }`.")
def r7(text):
    n = 0
    while True:
        m = re.search(r"\.\s*map_err\(\s*\|\s*_\s*\|", text)
        if not m:
            break
        dot = m.start()
        # whitespace before the dot belongs to the receiver chain
        o = text.index("(", m.start())
        toks = tokenize(text[o:])
        c = o + toks[match_close(toks, 0)].start
        inner = text[m.end():c].strip()
        rs = _receiver_start(text, dot)
        recv = text[rs:dot].rstrip()
        rep = "match %s { Ok(v_) => Ok(v_), Err(_) => Err(%s) }" % (recv, inner)
        old = text[rs:c + 1]
        rep = rep + "\n" * (old.count("\n") - rep.count("\n"))
        text = text[:rs] + rep + text[c + 1:]
        n += 1
    return text, n


@rule("R24", "Inline `const { assert!(..) };` block removed: evaluated at compile time only.")
def r24(text):
    n = 0
    while True:
        m = re.search(r"\bconst\s*\{", text)
        if not m:
            break
        o = m.end() - 1
        toks = tokenize(text[o:])
        c = o + toks[match_close(toks, 0)].start
        e = c + 1
        if text[e:e + 1] == ";":
            e += 1
        text = text[:m.start()] + text[e:]
        n += 1
    return text, n


@rule("T_stream", "Type-level: `SyncWrapper<Pin<Box<dyn Stream<Item = Result<D, E>> + Send>>>` and "
                  "`Pin<Box<dyn Stream<..> + Send>>` -> prelude `Inner<D, E>` (prophecy-style stream object); "
                  "`Box<dyn Entity<Data = D, Error = E>>` -> prelude `EntityBox<D, E>`; `crate::body::`/`crate::serving::` "
                  "path prefixes dropped (single-file unit).")
def t_stream(text):
    return _subn([
        (r"SyncWrapper<\s*Pin<\s*Box<\s*dyn\s+Stream<\s*Item\s*=\s*Result<D,\s*E>\s*>\s*\+\s*Send\s*>\s*>\s*>", "Inner<D, E>"),
        (r"Pin<\s*Box<\s*dyn\s+Stream<\s*Item\s*=\s*Result<D,\s*E>\s*>\s*\+\s*Send\s*>\s*>", "Inner<D, E>"),
        (r"Box<\s*dyn\s+Entity<\s*Data\s*=\s*D,\s*Error\s*=\s*E\s*>\s*>", "EntityBox<D, E>"),
        (r"\bcrate::(body|serving|chunker)::", ""),
        (r"<D = bytes::Bytes, E = BoxError>", "<D, E>"),
        (r"\bhttp_body::SizeHint\b", "SizeHint"),
        (r"\bpub\(crate\)\s*", "pub "),
        (r"<D = bytes::Bytes, E = BoxError>", "<D, E>"),
        (r"\bhttp_body::SizeHint\b", "SizeHint"),
        (r"\bpub\(crate\)\s*", "pub "),
    ], text)


@rule("R25", "`const X: &T` -> `const X: &'static T`: the lifetime elided in a const item is 'static by definition "
             "(Verus turns consts into functions and needs it spelled out).")
def r25(text):
    return re.subn(r"(\bconst\s+\w+\s*:\s*)&(?!')", r"\1&'static ", text)


def decode_bytes_literal(lit):
    """b"..." -> list of ints (the literal's own bytes)."""
    assert lit.startswith('b"') and lit.endswith('"'), lit
    s = lit[2:-1]
    out, i = [], 0
    esc = {"n": 10, "r": 13, "t": 9, "\\": 92, "0": 0, '"': 34, "'": 39}
    while i < len(s):
        c = s[i]
        if c == "\\":
            d = s[i + 1]
            if d == "x":
                out.append(int(s[i + 2:i + 4], 16))
                i += 4
            elif d == "\n":
                i += 2
                while i < len(s) and s[i].isspace():
                    i += 1
            else:
                out.append(esc[d])
                i += 2
        else:
            out.extend(c.encode())
            i += 1
    return out


def seq_of(bs):
    return "seq![" + ", ".join("0x%02xu8" % b for b in bs) + "]" if bs else "Seq::<u8>::empty()"


@rule("R25", "`const X: &[u8] = b\"..\";` -> `#[verifier::external_body] exec const X: &'static [u8] ensures X@ == seq![..] "
             "{ b\"..\" }`: the elided lifetime of a const is 'static; the `ensures` spells the literal's own bytes "
             "(generated from the literal token; Verus knows a byte-string literal's length but not its contents).")
def r25(text):
    def rep(m):
        bs = decode_bytes_literal(m.group(3))
        return "#[verifier::external_body] pub exec const %s: &'static [u8] ensures %s@ == %s { %s }" % (m.group(1), m.group(1), seq_of(bs), m.group(3))
    return re.subn(r"\bconst\s+(\w+)\s*:\s*&('static\s+)?\[u8\]\s*=\s*(b\"(?:[^\"\\]|\\.)*\")\s*;", rep, text)


@rule("R6", "Ghost wake log: `w.wake()` -> `w.wake(log, seen, Ghost(fp(&self.shared)))`, and the functions on the path thread the ghost parameters "
            "`log: &mut Ghost<Seq<u64>>` (ids of the wakers woken) and `seen: &mut Ghost<Seq<int>>` (a fingerprint of the shared state at the moment of each wake-up): "
            "`self.flush()` -> `self.flush(log, seen)`, `self.flush_helper(b)` -> `self.flush_helper(b, log, seen)`; ghost-only instrumentation so that "
            "'the taken waker is woken' and 'it is woken only once the state it announces is in place' can be postconditions.")
def r6(text):
    return _subn([
        (r"\.wake\(\)", ".wake(log, seen, Ghost(fp(&self.shared)))"),
        (r"\bself\.flush\(\)", "self.flush(log, seen)"),
        (r"\bself\.flush_helper\((\w+)\)", r"self.flush_helper(\1, log, seen)"),
    ], text)


@rule("R18", "`self.buf.extend_from_slice(X)` -> `vec_extend_from_slice(&mut self.buf, X)`: same call through a wrapper whose "
             "assumed contract adds 'no reallocation while len + n <= capacity' (vstd's specification is silent on capacity); "
             "`buf: Vec::new()` -> `buf: vec_new_u8()` (same call; assumed: Vec::new() has capacity 0).")
def r18(text):
    n = 0
    while True:
        m = re.search(r"\bself\.buf\.extend_from_slice\(", text)
        if not m:
            break
        o = m.end() - 1
        toks = tokenize(text[o:])
        c = o + toks[match_close(toks, 0)].start
        text = text[:m.start()] + "vec_extend_from_slice(&mut self.buf, " + text[o + 1:c] + ")" + text[c + 1:]
        n += 1
    text, k = re.subn(r"\bbuf:\s*Vec::new\(\)", "buf: vec_new_u8()", text)
    return text, n + k


@rule("T_chunk", "Type-level: `Arc<Mutex<Shared<E>>>` -> `Shared<E>` (R4); `std::task::Waker` -> prelude `Waker`; "
                 "`PhantomData<fn(D)>` -> `PhantomData<D>` (variance marker only; Verus has no fn-pointer types); "
                 "`where` bounds of the struct dropped (bounds live on the overlay impl).")
def t_chunk(text):
    return _subn([
        (r"Arc<\s*Mutex<\s*Shared<E>\s*>\s*>", "Shared<E>"),
        (r"\bstd::task::Waker\b", "Waker"),
        (r"PhantomData<\s*fn\(D\)\s*>", "PhantomData<D>"),
        (r"\bwhere\s+D:[^{]*?E:[^{]*?(?=\{)", ""),
        (r"\bpub\(crate\)\s*", "pub "),
    ], text)


@rule("R10", "Definition of `for`: `for x in E {B}` -> `let mut it_ = E; loop { let Some(x) = it_.next() else { break }; B }` "
             "(the iterator is the prelude's specified `Split` / `HdrIter`; `for x in &C` uses `C.iter()`); over a slice variable "
             "`for r in v {B}` -> `let mut i_ = 0; while i_ < v.len() { let r = &v[i_]; i_ += 1; B }`.")
def r10(text):
    n = 0
    while True:
        m = re.search(r"\bfor\s+(&?\w+|\([\w\s,]+\))\s+in\s+(?=&|\w+\.split\(|\w+\s*\{|\w+\.as_bytes\(\)\s*\{)", text)
        if not m:
            break
        # iterator expression runs to the '{' opening the loop body
        toks = tokenize(text[m.end():])
        j = 0
        while toks[j].text != "{":
            if toks[j].text in ("(", "["):
                j = match_close(toks, j)
            j += 1
        brace = m.end() + toks[j].start
        expr = text[m.end():brace].strip()
        if re.fullmatch(r"\w+(\.as_bytes\(\))?", expr):
            # iteration over a slice by reference: element k, in order (`for &x in v` copies the element: `let x = v[k]`)
            if m.group(1).startswith("&"):
                head = "let mut i_: usize = 0; while i_ < %s.len() { let %s = %s[i_]; i_ += 1;" % (expr, m.group(1)[1:], expr)
            else:
                head = "let mut i_: usize = 0; while i_ < %s.len() { let %s = &%s[i_]; i_ += 1;" % (expr, m.group(1), expr)
        elif expr.startswith("&mut "):
            head = "loop { let Some(%s) = %s.next() else { break };" % (m.group(1), expr[5:].strip())
        elif expr.startswith("&"):
            # `for x in &C` is `for x in C.iter()` (IntoIterator for &C)
            head = "let mut it_ = %s.iter(); loop { let Some(%s) = it_.next() else { break };" % (expr[1:].strip(), m.group(1))
        else:
            head = "let mut it_ = %s; loop { let Some(%s) = it_.next() else { break };" % (expr, m.group(1))
        text = text[:m.start()] + head + text[brace + 1:]
        n += 1
    return text, n


@rule("R41", "Definition of a `match` on string-literal patterns: `match s { \"a\" | \"b\" => A, \"c\" => B, x if G => C, _ => D }` -> "
             "`if s.is(\"a\") || s.is(\"b\") { A } else if s.is(\"c\") { B } else if { let x = s; G } { C } else { D }` "
             "(arms are tried in order; `is` is `str == literal`; a guard arm binding the scrutinee under its own name is just the guard).")
def r41(text):
    n = 0
    while True:
        m = re.search(r"\bmatch\s+(\w+)\s*\{\s*(?=\")", text)
        if not m:
            break
        scrut = m.group(1)
        o = text.index("{", m.start())
        toks = tokenize(text[o:])
        c = o + toks[match_close(toks, 0)].start
        arms = [a for a in _split_top(text[o + 1:c]) if a.strip()]
        parts, ok, closed = [], True, False
        for a in arms:
            if "=>" not in a:
                ok = False
                break
            pat, body = a.split("=>", 1)
            pat, body = pat.strip(), body.strip()
            if not (body.startswith("{") and body.endswith("}")):
                body = "{ %s }" % body
            if pat == "_":
                parts.append(body)
                closed = True
                break
            g = re.fullmatch(r"(\w+)\s+if\s+(.*)", pat, re.S)
            if g:
                cond = g.group(2).strip() if g.group(1) == scrut else "{ let %s = %s; %s }" % (g.group(1), scrut, g.group(2).strip())
            else:
                lits = [x.strip() for x in pat.split("|")]
                if not all(re.fullmatch(r'"(?:[^"\\\\]|\\\\.)*"', x) for x in lits):
                    ok = False
                    break
                cond = " || ".join("%s.is(%s)" % (scrut, x) for x in lits)
            parts.append("if %s %s else" % (cond, body))
        if not ok or not closed:
            break
        rep = " ".join(parts)
        old = text[m.start():c + 1]
        rep = rep + "\n" * max(0, old.count("\n") - rep.count("\n"))
        text = text[:m.start()] + rep + text[c + 1:]
        n += 1
    return text, n


@rule("R16", "`SmallVec<[Range<u64>; 1]>` -> `Vec<Range<u64>>`, `SmallVec::new()` -> `Vec::new()`, `.into_vec()` dropped: "
             "a SmallVec is a Vec with inline storage (same sequence semantics).")
def r16(text):
    return _subn([
        (r"SmallVec<\s*\[\s*Range<u64>\s*;\s*1\s*\]\s*>", "Vec<Range<u64>>"),
        (r"\bSmallVec::new\(\)", "Vec::new()"),
        (r"\.into_vec\(\)", ""),
        (r"\bpub\(crate\)\s*", "pub "),
    ], text)


@rule("R19", "String slicing `&r[a..b]` -> `r.slice(a, b)`, `&r[a..]` -> `r.slice(a, r.len())` on the opaque Str: the "
             "stub's `slice` has the precondition a <= b <= len, so slicing panics become obligations.")
def r19(text):
    n = 0
    while True:
        m = re.search(r"&(\w+)\[", text)
        if not m:
            break
        o = m.end() - 1
        toks = tokenize(text[o:])
        c = o + toks[match_close(toks, 0)].start
        inner = text[o + 1:c]
        if ".." not in inner:
            break
        a, b = inner.split("..", 1)
        a = a.strip() or "0"
        b = b.strip() or "%s.len()" % m.group(1)
        text = text[:m.start()] + "%s.slice(%s, %s)" % (m.group(1), a, b) + text[c + 1:]
        n += 1
    return text, n


@rule("R20", "`u64::from_str(x)` / `u16::from_str(x)` -> prelude `u64_from_str(x)` / `u16_from_str(x)` (named function with the "
             "std meaning, assumed contract); `X.and_then(|v| B)` -> `match X { Some(v) => B, None => None }` (definition "
             "of Option::and_then).")
def r20(text):
    text, n = _subn([(r"\bu64::from_str\(", "u64_from_str("), (r"\bu16::from_str\(", "u16_from_str(")], text)
    while True:
        m = re.search(r"\.\s*and_then\(\s*\|\s*(\w+)\s*\|", text)
        if not m:
            break
        o = text.index("(", m.start())
        toks = tokenize(text[o:])
        c = o + toks[match_close(toks, 0)].start
        inner = text[m.end():c].strip()
        rs = _receiver_start(text, m.start())
        recv = text[rs:m.start()].rstrip()
        rep = "(match %s { Some(%s) => %s, None => None })" % (recv, m.group(1), inner)
        old = text[rs:c + 1]
        rep = rep + "\n" * (old.count("\n") - rep.count("\n"))
        text = text[:rs] + rep + text[c + 1:]
        n += 1
    return text, n


LITS = {}   # name -> (literal text, bytes) collected by R22 during one extraction


@rule("R22", "Byte-string literal `b\"..\"` -> call of a generated constant function `crate::lit::b_<hex>()` whose body is the "
             "same literal and whose `ensures` spells its bytes (generated from the literal's own token): Verus knows the "
             "length but not the contents of byte-string literals; the rewrite only adds the missing fact.")
def r22(text):
    toks = tokenize(text)
    out, last, n = [], 0, 0
    for t in toks:
        if t.kind == "str" and t.text.startswith('b"'):
            bs = decode_bytes_literal(t.text)
            name = "b_" + ("".join("%02x" % b for b in bs) or "empty")
            LITS[name] = (t.text, bs)
            out.append(text[last:t.start])
            out.append("crate::lit::%s()" % name)
            last = t.end
            n += 1
    out.append(text[last:])
    return "".join(out), n


def lits_module():
    lines = ["pub mod lit {", "    use vstd::prelude::*;"]
    for name, (lit, bs) in sorted(LITS.items()):
        lines.append("    #[verifier::external_body] pub fn %s() -> (r: &'static [u8]) ensures r@ == %s { %s }" % (name, seq_of(bs), lit))
    lines.append("}")
    return "\n".join(lines)


@rule("R13", "Inner `const ERR` items declared in two blocks of one function renamed `ERR1`, `ERR2` (with their uses in the "
             "same block): Verus reports 'duplicate specification' for same-named inner consts; `&str` gets its 'static.")
def r13(text):
    n = 0
    k = 0
    out = text
    pos = 0
    while True:
        m = re.search(r"\bconst\s+ERR\s*:\s*&(?:'static\s+)?str\s*=", out[pos:])
        if not m:
            break
        k += 1
        start = pos + m.start()
        # the enclosing block ends at the matching '}' of the innermost '{' before start
        depth, i = 0, start
        while i < len(out):
            if out[i] == "{":
                depth += 1
            elif out[i] == "}":
                if depth == 0:
                    break
                depth -= 1
            i += 1
        blk = out[start:i]
        blk2 = re.sub(r"\bERR\b", "ERR%d" % k, blk)
        blk2 = re.sub(r"(const\s+ERR%d\s*:\s*)&(?:'static\s+)?str" % k, r"\1&'static str", blk2)
        out = out[:start] + blk2 + out[i:]
        pos = start + len(blk2)
        n += 1
    return out, n


@rule("T_pubfields", "Struct fields made `pub` (visibility only, so that contracts may mention them).")
def t_pubfields(text):
    return re.subn(r"(?m)^(\s+)(?!pub\b)(\w+\s*:)", r"\1pub \2", text)


@rule("R8", "Definition of a one-element slice pattern: `if let [a] = &v[..] {A} else {B}` -> "
            "`if v.len() == 1 { let a = &v[0]; A } else {B}`; a remaining full-range borrow `&v[..]` -> `v.as_slice()` "
            "(definition of Vec::as_slice).")
def r8(text):
    t, n1 = re.subn(r"if\s+let\s+\[(\w+)\]\s*=\s*&(\w+)\[\.\.\]\s*\{", r"if \2.len() == 1 { let \1 = &\2[0];", text)
    t, n2 = re.subn(r"&(\w+)\[\.\.\]", r"\1.as_slice()", t)
    return t, n1 + n2


@rule("R9", "Definition of `try_fold` over a slice with an Option accumulator: `V.iter().try_fold(INIT, |acc, r| BODY)` -> "
            "`{ let mut acc_o = Some(INIT); let mut k_ = 0; while k_ < V.len() { let r = &V[k_]; if let Some(acc) = acc_o "
            "{ acc_o = BODY; } k_ += 1; } acc_o }` (the loop gets its invariant from the overlay).")
def r9(text):
    n = 0
    while True:
        m = re.search(r"(\w+)\s*\.iter\(\)\s*\.try_fold\(", text)
        if not m:
            break
        o = m.end() - 1
        toks = tokenize(text[o:])
        c = o + toks[match_close(toks, 0)].start
        inner = text[o + 1:c]
        init, clos = inner.split(",", 1)
        mm = re.match(r"\s*\|\s*(\w+)\s*,\s*(\w+)\s*\|\s*(.*)$", clos, re.S)
        acc, r, body = mm.group(1), mm.group(2), mm.group(3).strip()
        v = m.group(1)
        rep = ("{ let mut acc_o: Option<u64> = Some(%s); let mut k_: usize = 0; while k_ < %s.len() { let %s = &%s[k_]; "
               "if let Some(%s) = acc_o { acc_o = %s; } k_ += 1; } acc_o }") % (init.strip(), v, r, v, acc, body)
        old = text[m.start():c + 1]
        rep = " ".join(rep.split("\n")) if rep.count("\n") > old.count("\n") else rep + "\n" * (old.count("\n") - rep.count("\n"))
        text = text[:m.start()] + rep + text[c + 1:]
        n += 1
    return text, n


@rule("R11", "Const-pattern match on a PartialEq value: `match *method { Method::HEAD => A, _ => B }` -> "
             "`if *method == Method::HEAD { A } else { B }`.")
def r11(text):
    n = 0
    while True:
        m = re.search(r"\bmatch\s+\*method\s*\{", text)
        if not m:
            break
        o = m.end() - 1
        toks = tokenize(text[o:])
        c = o + toks[match_close(toks, 0)].start
        inner = text[o + 1:c]
        arms = [a for a in _split_top(inner) if a.strip()]
        if len(arms) != 2:
            break
        p1, e1 = arms[0].split("=>", 1)
        p2, e2 = arms[1].split("=>", 1)
        if p2.strip() != "_":
            break
        rep = "if *method == %s { %s } else { %s }" % (p1.strip(), e1.strip(), e2.strip())
        old = text[m.start():c + 1]
        rep = rep + "\n" * max(0, old.count("\n") - rep.count("\n"))
        text = text[:m.start()] + rep + text[c + 1:]
        n += 1
    return text, n


@rule("R14", "Capacity hints removed: `X.reserve(..);` deleted (capacity of a growable Vec is not observable).")
def r14(text):
    n = 0
    while True:
        m = re.search(r"\b\w+\.reserve\(", text)
        if not m:
            break
        o = m.end() - 1
        toks = tokenize(text[o:])
        c = o + toks[match_close(toks, 0)].start
        e = c + 1
        if text[e:e + 1] == ";":
            e += 1
        old = text[m.start():e]
        text = text[:m.start()] + "\n" * old.count("\n") + text[e:]
        n += 1
    return text, n


@rule("R23", "`\"<ASCII literal>\".len()` -> the integer constant (constant folding; Verus leaves str::len of a literal uninterpreted).")
def r23(text):
    def rep(m):
        lit = m.group(1)
        bs = decode_bytes_literal("b" + lit)
        return "%dusize" % len(bs)
    return re.subn(r"(\"(?:[^\"\\]|\\.)*\")\.len\(\)", rep, text)


@rule("R28", "Ghost call log: `ent.get_range(X)` -> `ent.get_range(X, calls)` with a ghost parameter "
             "`calls: &mut Ghost<Seq<(u64, u64)>>` threaded through serve_inner, so that 'which entity bytes were requested' "
             "(and 'none for HEAD') can be a postcondition.")
def r28(text):
    n = 0
    pos = 0
    while True:
        m = re.search(r"\bent\.get_range\(|\bserve_inner\(", text[pos:])
        if not m:
            break
        o = pos + m.end() - 1
        toks = tokenize(text[o:])
        c = o + toks[match_close(toks, 0)].start
        text = text[:c] + ", calls" + text[c:]
        pos = c
        n += 1
    return text, n


@rule("R29", "Definition of `bool::then`: `B.then(|| X)` -> `if B { Some(X) } else { None }`.")
def r29(text):
    n = 0
    while True:
        m = re.search(r"\.\s*then\(\s*\|\|", text)
        if not m:
            break
        o = text.index("(", m.start())
        toks = tokenize(text[o:])
        c = o + toks[match_close(toks, 0)].start
        inner = text[m.end():c].strip()
        rs = _receiver_start(text, m.start())
        recv = text[rs:m.start()].rstrip()
        rep = "if %s { Some(%s) } else { None }" % (recv, inner)
        old = text[rs:c + 1]
        rep = rep + "\n" * max(0, old.count("\n") - rep.count("\n"))
        text = text[:rs] + rep + text[c + 1:]
        n += 1
    return text, n


@rule("R30", "`X.strip_prefix(P)` on byte slices -> `slice_strip_prefix(X, P)`: a definitional implementation in the prelude "
             "(compares the prefix, returns the rest) that is itself verified against the specification.")
def r30(text):
    n = 0
    while True:
        m = re.search(r"\b(\w+)\.strip_prefix\((?!\s*[\"'])", text)      # a `"str"` / `'c'` pattern is the str method, not the slice one
        if not m:
            break
        o = m.end() - 1
        toks = tokenize(text[o:])
        c = o + toks[match_close(toks, 0)].start
        text = text[:m.start()] + "slice_strip_prefix(%s, %s)" % (m.group(1), text[o + 1:c]) + text[c + 1:]
        n += 1
    return text, n


@rule("R26", "`S.iter().position(|&b| b == C)` -> `slice_position(&S, C)` (or `slice_position(slice_from(X, k), C)` for "
             "`S = X[k..]`): a verified definitional implementation (first index holding C).")
def r26(text):
    n = 0
    while True:
        m = re.search(r"\.\s*iter\(\)\s*\.\s*position\(\s*\|&b\|\s*b\s*==\s*(b'(?:[^'\\]|\\.)')\s*\)", text)
        if not m:
            break
        rs = _receiver_start(text, m.start())
        recv = text[rs:m.start()].strip()
        mm = re.fullmatch(r"([\w\.]+)\[(\w+)\.\.\]", recv)
        arg = "slice_from(%s, %s)" % (mm.group(1), mm.group(2)) if mm else "&" + recv
        rep = "slice_position(%s, %s)" % (arg, m.group(1))
        old = text[rs:m.end()]
        rep = rep + "\n" * max(0, old.count("\n") - rep.count("\n"))
        text = text[:rs] + rep + text[m.end():]
        n += 1
    return text, n


@rule("R27", "Definition of Option::map with a closure: `X.map(|p| E)` -> `match X { Some(p) => Some(E), None => None }`.")
def r27(text):
    n = 0
    while True:
        m = re.search(r"\.\s*map\(\s*\|\s*(\w+)\s*\|", text)
        if not m:
            break
        o = text.index("(", m.start())
        toks = tokenize(text[o:])
        c = o + toks[match_close(toks, 0)].start
        inner = text[m.end():c].strip()
        rs = _receiver_start(text, m.start())
        recv = text[rs:m.start()].rstrip()
        rep = "(match %s { Some(%s) => Some(%s), None => None })" % (recv, m.group(1), inner)
        old = text[rs:c + 1]
        rep = rep + "\n" * max(0, old.count("\n") - rep.count("\n"))
        text = text[:rs] + rep + text[c + 1:]
        n += 1
    return text, n


@rule("R37", "Definition of Option::filter with a closure: `X.filter(|p| C)` -> `match X { Some(v_) => if { let p = &v_; C } { Some(v_) } else { None }, None => None }` "
             "(`|_| C` omits the binding).")
def r37(text):
    n = 0
    while True:
        m = re.search(r"\.\s*filter\(\s*\|\s*(\w+)\s*\|", text)
        if not m:
            break
        o = text.index("(", m.start())
        toks = tokenize(text[o:])
        c = o + toks[match_close(toks, 0)].start
        inner = text[m.end():c].strip()
        rs = _receiver_start(text, m.start())
        recv = text[rs:m.start()].rstrip()
        bind = "" if m.group(1) == "_" else "let %s = &v_; " % m.group(1)
        rep = "(match %s { Some(v_) => if { %s%s } { Some(v_) } else { None }, None => None })" % (recv, bind, inner)
        old = text[rs:c + 1]
        rep = rep + "\n" * max(0, old.count("\n") - rep.count("\n"))
        text = text[:rs] + rep + text[c + 1:]
        n += 1
    return text, n


@rule("R38", "Definition of Result::unwrap_or_else / Option::unwrap_or_else with a closure: `X.unwrap_or_else(|e| E)` -> `match X { Ok(v_) => v_, Err(e) => E }`; "
             "`X.unwrap_or_else(|| E)` -> `match X { Some(v_) => v_, None => E }`.")
def r38(text):
    n = 0
    while True:
        m = re.search(r"\.\s*unwrap_or_else\(\s*\|\s*(\w*)\s*\|", text)
        if not m:
            break
        o = text.index("(", m.start())
        toks = tokenize(text[o:])
        c = o + toks[match_close(toks, 0)].start
        inner = text[m.end():c].strip()
        rs = _receiver_start(text, m.start())
        recv = text[rs:m.start()].rstrip()
        if m.group(1):
            rep = "(match %s { Ok(v_) => v_, Err(%s) => %s })" % (recv, m.group(1), inner)
        else:
            rep = "(match %s { Some(v_) => v_, None => %s })" % (recv, inner)
        old = text[rs:c + 1]
        rep = rep + "\n" * max(0, old.count("\n") - rep.count("\n"))
        text = text[:rs] + rep + text[c + 1:]
        n += 1
    return text, n


@rule("R42", "Definition of Option::is_some_and / is_none_or with a closure: `X.is_some_and(|p| C)` -> `(match X { Some(p) => C, None => false })`, "
             "`X.is_none_or(|p| C)` -> `(match X { Some(p) => C, None => true })`.")
def r42(text):
    n = 0
    while True:
        m = re.search(r"\.\s*(is_some_and|is_none_or)\(", text)
        if not m:
            break
        o = m.end() - 1
        toks = tokenize(text[o:])
        c = o + toks[match_close(toks, 0)].start
        inner = text[o + 1:c]
        mm = re.match(r"\s*\|\s*(&?\s*\w+)\s*\|\s*(.*)$", inner, re.S)
        if not mm:
            text = text[:m.start()] + "." + m.group(1) + "_\x00(" + text[m.end():]
            continue
        rs = _receiver_start(text, m.start())
        recv = text[rs:m.start()].rstrip()
        rep = "(match %s { Some(%s) => %s, None => %s })" % (recv, mm.group(1).strip(), mm.group(2).strip(), "false" if m.group(1) == "is_some_and" else "true")
        old = text[rs:c + 1]
        rep = rep + "\n" * max(0, old.count("\n") - rep.count("\n"))
        text = text[:rs] + rep + text[c + 1:]
        n += 1
    return text.replace("_\x00(", "("), n


@rule("R43", "Definition of Option::or_else with a closure: `X.or_else(|| E)` -> `(match X { Some(v_) => Some(v_), None => E })`.")
def r43(text):
    n = 0
    while True:
        m = re.search(r"\.\s*or_else\(\s*\|\s*\|", text)
        if not m:
            break
        o = text.index("(", m.start())
        toks = tokenize(text[o:])
        c = o + toks[match_close(toks, 0)].start
        inner = text[o + 1:c]
        e = re.sub(r"^\s*\|\s*\|\s*", "", inner, count=1).strip()
        rs = _receiver_start(text, m.start())
        recv = text[rs:m.start()].rstrip()
        rep = "(match %s { Some(v_) => Some(v_), None => %s })" % (recv, e)
        old = text[rs:c + 1]
        rep = rep + "\n" * max(0, old.count("\n") - rep.count("\n"))
        text = text[:rs] + rep + text[c + 1:]
        n += 1
    return text, n


@rule("R46", "`X.iter().all(u8::is_ascii_digit)` / `X.iter().all(|b| b.is_ascii_digit())` / `X.bytes().all(|b| b.is_ascii_digit())` -> "
             "`crate::strs::slice_all_ascii_digits(X)` (for the `bytes()` form: of `X.as_bytes()`): a VERIFIED definitional implementation in the prelude "
             "(a loop over the bytes; true for the empty slice, as `Iterator::all`).")
def r46(text):
    t, n1 = re.subn(r"\b([\w\.]+?)\s*\.iter\(\)\s*\.all\(\s*(?:u8::is_ascii_digit|\|\s*&?\s*(\w+)\s*\|\s*\2\.is_ascii_digit\(\))\s*\)", r"crate::strs::slice_all_ascii_digits(\1)", text)
    t, n2 = re.subn(r"\b([\w\.]+?)\s*\.bytes\(\)\s*\.all\(\s*\|\s*&?\s*(\w+)\s*\|\s*\2\.is_ascii_digit\(\)\s*\)", r"crate::strs::slice_all_ascii_digits(\1.as_bytes())", t)
    return t, n1 + n2


@rule("R47", "Definition of `bool::then_some`: `B.then_some(X)` -> `{ let b_ = B; let v_ = X; if b_ { Some(v_) } else { None } }` (the argument is "
             "evaluated eagerly, after the receiver, as in the method call).")
def r47(text):
    n = 0
    while True:
        m = re.search(r"\.\s*then_some\(", text)
        if not m:
            break
        o = m.end() - 1
        toks = tokenize(text[o:])
        c = o + toks[match_close(toks, 0)].start
        inner = text[o + 1:c]
        rs = _receiver_start(text, m.start())
        recv = text[rs:m.start()].rstrip()
        rep = "{ let b_ = %s; let v_ = %s; if b_ { Some(v_) } else { None } }" % (recv, inner.strip())
        old = text[rs:c + 1]
        rep = rep + "\n" * max(0, old.count("\n") - rep.count("\n"))
        text = text[:rs] + rep + text[c + 1:]
        n += 1
    return text, n


@rule("R39", "Definition of Option::map_or with a closure: `X.map_or(D, |p| E)` -> `match X { Some(p) => E, None => D }`.")
def r39(text):
    n = 0
    while True:
        m = re.search(r"\.\s*map_or\(", text)
        if not m:
            break
        o = m.end() - 1
        toks = tokenize(text[o:])
        c = o + toks[match_close(toks, 0)].start
        inner = text[o + 1:c]
        mm = re.match(r"(.*?),\s*\|\s*(\w+)\s*\|\s*(.*)$", inner, re.S)
        if not mm:
            text = text[:m.start()] + ".map_or_\x00(" + text[m.end():]   # not a closure form: leave (marker removed below)
            continue
        rs = _receiver_start(text, m.start())
        recv = text[rs:m.start()].rstrip()
        rep = "(match %s { Some(%s) => %s, None => %s })" % (recv, mm.group(2), mm.group(3).strip(), mm.group(1).strip())
        old = text[rs:c + 1]
        rep = rep + "\n" * max(0, old.count("\n") - rep.count("\n"))
        text = text[:rs] + rep + text[c + 1:]
        n += 1
    return text.replace(".map_or_\x00(", ".map_or("), n


@rule("R40", "Closure parameters Verus cannot parse, renamed without changing meaning: `|_| E` -> `|_w_| E`, `|()| E` -> `|_w_: ()| E` "
             "(an ignored argument stays ignored).")
def r40(text):
    t, n1 = re.subn(r"\|\s*_\s*\|", "|_w_|", text)
    t, n2 = re.subn(r"\|\s*\(\s*\)\s*\|", "|_w_: ()|", t)
    return t, n1 + n2


@rule("R31", "`S.split_at(mid)` -> `slice_split_at(S, mid)`: verified definitional implementation whose precondition "
             "`mid <= len` is the panic condition of the std function.")
def r31(text):
    n = 0
    while True:
        m = re.search(r"\b([\w\.]+)\.split_at\(", text)
        if not m:
            break
        o = m.end() - 1
        toks = tokenize(text[o:])
        c = o + toks[match_close(toks, 0)].start
        text = text[:m.start()] + "slice_split_at(%s, %s)" % (m.group(1), text[o + 1:c]) + text[c + 1:]
        n += 1
    return text, n


@rule("R8b", "Definition of head/tail slice patterns: `if let [C, r @ ..] = v {` -> `if v.len() >= 1 && v[0] == C { let r = "
             "slice_from(v, 1);`; `while let [A | B, t @ ..] = v {` -> `while v.len() >= 1 && (v[0] == A || v[0] == B) { "
             "let t = slice_from(v, 1);`.")
def r8b(text):
    lit = r"b'(?:[^'\\]|\\.)'"
    t, n1 = re.subn(r"if\s+let\s+\[(%s),\s*(\w+)\s*@\s*\.\.\]\s*=\s*(\w+)\s*\{" % lit,
                    r"if \3.len() >= 1 && \3[0] == \1 { let \2 = slice_from(\3, 1);", text)
    t, n2 = re.subn(r"while\s+let\s+\[(%s)\s*\|\s*(%s),\s*(\w+)\s*@\s*\.\.\]\s*=\s*(\w+)\s*\{" % (lit, lit),
                    r"while \4.len() >= 1 && (\4[0] == \1 || \4[0] == \2) { let \3 = slice_from(\4, 1);", t)
    return t, n1 + n2


@rule("R33", "Definitions of Poll::map / Option::map / Result::map on the chain in Body::poll_frame: "
             "`X.map(|p| p.map(|o| o.map(http_body::Frame::data)))` -> explicit matches that apply `Frame::data` to the "
             "Ok payload and leave Pending / None / Err unchanged.")
def r33(text):
    n = 0
    while True:
        m = re.search(r"\.\s*map\(\s*\|p\|\s*p\.map\(\s*\|o\|\s*o\.map\(\s*http_body::Frame::data\s*\)\s*\)\s*\)", text)
        if not m:
            break
        rs = _receiver_start(text, m.start())
        recv = text[rs:m.start()].rstrip()
        rep = ("match %s { Poll::Ready(p) => Poll::Ready(match p { Some(o) => Some(match o { Ok(d) => Ok(http_body::Frame::data(d)), "
               "Err(e) => Err(e) }), None => None }), Poll::Pending => Poll::Pending }") % recv
        old = text[rs:m.end()]
        rep = rep + "\n" * max(0, old.count("\n") - rep.count("\n"))
        text = text[:rs] + rep + text[m.end():]
        n += 1
    return text, n


@rule("R10i", "Definition of `for` over an iterator value: `for x in IT {B}` -> `let mut it_ = IT; loop { let Some(x) = it_.next() "
              "else { break }; B }` (IT is the prelude's specified `Split`).")
def r10i(text):
    return re.subn(r"\bfor\s+(\w+)\s+in\s+(\w+)\s*\{", r"let mut it_ = \2; loop { let Some(\1) = it_.next() else { break };", text)


@rule("T_bw", "Type-level (gzip.rs): `where` bounds of the struct/enum dropped (they only select impls); "
              "`flate2::write::GzEncoder<chunker::Writer<D, E>>` kept verbatim against the prelude's opaque GzEncoder.")
def t_bw(text):
    return _subn([
        (r"\bwhere\s+D:[^;{]*?E:[^;{]*?(?=[;{])", ""),
        (r"\bpub\(crate\)\s*", "pub "),
    ], text)


@rule("T_file", "Type-level (file.rs): the generic bounds of `ChunkedReadFile<D: .., E: ..>` dropped (they only select impls); "
                "`std::fs::File` / `::std::fs::Metadata` -> the prelude's opaque `fs::File` / `fs::Metadata` (what a file is stays the OS's business).")
def t_file(text):
    return _subn([
        (r"<\s*D\s*:[^{;]*?\bE\s*:[^{;]*?>\s*(?=\{)", "<D, E> "),
        (r"(?:::)?\bstd::fs::(File|Metadata)\b", r"fs::\1"),
    ], text)


@rule("R44", "`futures::stream::unfold(INIT, move |(a, b)| async { B })` step lifting (file.rs get_range): the function body "
             "`let stream = stream::unfold((range, Arc::clone(&self.inner)), move |(left, inner)| async { B }); let _: &dyn Stream<..> = &stream; Box::pin(stream)` "
             "-> `{ B }`, the step function of the unfold, with the closure's pattern variables as the overlay's parameters "
             "(an `async` block without `.await` is its body; the initial state is checked to be `(range, Arc::clone(&self.inner))`, i.e. the "
             "requested range and this file); `tokio::task::block_in_place(move || X)` -> `(X)` (runs the closure on the current thread "
             "and returns its value); `Box::<dyn StdError + Send + Sync + 'static>::from(e).into()` -> `box_error_into(e)` (prelude: the same "
             "two conversions as one named function); ghost read log: `.read_at(n, off)` -> `.read_at(n, off, reads)`.")
def r44(text):
    m = re.search(r"\blet\s+stream\s*=\s*stream::unfold\(", text)
    if not m:
        return text, 0
    o = m.end() - 1
    toks = tokenize(text[o:])
    c = o + toks[match_close(toks, 0)].start
    args = _split_top(text[o + 1:c])
    args = [a for a in args if a.strip()]
    if len(args) != 2 or re.sub(r"\s+", "", args[0]) != "(range,Arc::clone(&self.inner))":
        return text, 0
    cm = re.match(r"\s*move\s*\|\s*\(\s*(\w+)\s*,\s*(\w+)\s*\)\s*\|\s*async\s*\{", args[1])
    rest = re.sub(r"\s+", " ", text[c + 1:]).strip()
    if not cm or ".await" in args[1] or not re.fullmatch(r"; let _: &dyn Stream<Item = Result<Self::Data, Self::Error>> = &stream; Box::pin\(stream\) \}", rest):
        return text, 0
    clo_start = o + 1 + text[o + 1:c].index(args[1])
    b_open = clo_start + cm.end() - 1
    toks2 = tokenize(text[b_open:])
    b_close = b_open + toks2[match_close(toks2, 0)].start
    inner = text[b_open + 1:b_close]
    # the closure's pattern variables are the overlay's parameters `left` and `inner`: rename them if the code calls them otherwise
    pa, pb = cm.group(1), cm.group(2)
    if (pa, pb) != ("left", "inner"):
        if re.search(r"(?<![\w.])(left|inner|v_l_|v_i_)(?!\w)", inner):
            return text, 0
        inner = re.sub(r"(?<!\w)(?<![^.]\.)%s(?!\w)" % re.escape(pa), "v_l_", inner)
        inner = re.sub(r"(?<!\w)(?<![^.]\.)%s(?!\w)" % re.escape(pb), "v_i_", inner)
        inner = inner.replace("v_l_", "left").replace("v_i_", "inner")
    head_nl = text[:b_open].count("\n")
    tail_nl = text[b_close:].count("\n")
    out = "{" + "\n" * head_nl + inner + "\n" * tail_nl + "}"
    out, n1 = re.subn(r"tokio::task::block_in_place\(\s*move\s*\|\|", "(", out)
    out, n2 = re.subn(r"Box::<dyn StdError \+ Send \+ Sync \+ 'static>::from\((\w+)\)\.into\(\)", r"box_error_into(\1)", out)
    out, n3 = re.subn(r"\.read_at\(([^()]*)\)", r".read_at(\1, reads)", out)
    return out, 1 + n1 + n2 + n3


@rule("R45", "`tokio::task::spawn_blocking(move || -> T { B }).await.unwrap_or_else(|e: JoinError| Err(..))` in tail position of an `async fn` "
             "(dir.rs FsDir::get) -> `{ B }`: the closure's body runs to completion on another thread and its value is the function's value, so "
             "`return` / `?` inside B return that value either way (a panic inside B - JoinError - is outside the model); `async fn` itself is "
             "its body (no other `.await`).  With it: `unsafe { CStr::from_bytes_with_nul_unchecked(X) }` -> `cstr_from_bytes_with_nul_unchecked(X)` "
             "(prelude function whose PRECONDITION is the safety contract of the unsafe call: one NUL, at the end - so the `unsafe` block's "
             "justification becomes a proof obligation); `&b\"..\"[..]` -> `b\"..\"`, `&buf[..]` -> `buf.as_slice()` (full-range reborrows); "
             "`super::should_gzip(` -> `should_gzip(`; `.as_bytes()` on the `&str` path dropped as in R17; ghost log of openat calls: "
             "`self.open_file(X)` -> `self.open_file(X, opens)`.")
def r45(text):
    m = re.search(r"\btokio::task::spawn_blocking\(\s*move\s*\|\|\s*->\s*Result<Node,\s*Error>\s*\{", text)
    if not m:
        return text, 0
    b_open = m.end() - 1
    toks = tokenize(text[b_open:])
    b_close = b_open + toks[match_close(toks, 0)].start
    tail = re.sub(r"\s+", " ", text[b_close + 1:]).strip()
    if tail != ") .await .unwrap_or_else(|e: tokio::task::JoinError| Err(Error::new(ErrorKind::Other, e))) }" or text.count(".await") != 1:
        return text, 0
    head = text[:m.start()]
    inner = text[b_open:b_close + 1]
    out = head + "\n" * text[m.start():b_open].count("\n") + inner + "\n" * text[b_close + 1:].count("\n") + "}"
    out, n1 = re.subn(r"unsafe\s*\{\s*CStr::from_bytes_with_nul_unchecked\(([^()]*(?:\([^()]*\))?[^()]*)\)\s*\}", r"cstr_from_bytes_with_nul_unchecked(\1)", out)
    out, n2 = re.subn(r'&(b"[^"]*")\[\.\.\]', r"\1", out)
    out, n3 = re.subn(r"&(\w+)\[\.\.\]", r"\1.as_slice()", out)
    out, n4 = re.subn(r"\bsuper::should_gzip\(", "should_gzip(", out)
    out, n5 = re.subn(r"\bpath\.as_bytes\(\)", "path", out)
    n6, pos = 0, 0
    while True:
        mm = re.search(r"\bself\.open_file\(", out[pos:])
        if not mm:
            break
        o = pos + mm.end() - 1
        tk = tokenize(out[o:])
        c = o + tk[match_close(tk, 0)].start
        out = out[:c].rstrip().rstrip(",") + ", opens" + out[c:]
        pos = c
        n6 += 1
    return out, 1 + n1 + n2 + n3 + n4 + n5 + n6


@rule("R36", "Function-local `static NAME: usize = <literal>;` -> `const NAME: usize = <literal>;` (an immutable integer static and a const "
             "of the same value are interchangeable in expressions; Verus has no function-local statics).")
def r36(text):
    return re.subn(r"\bstatic\s+(\w+)\s*:\s*(usize|u64|u32)\s*=\s*(\d[\d_]*)\s*;", r"const \1: \2 = \3;", text)


@rule("R17", "`path.as_bytes()` -> `path` with the parameter typed `&[u8]` in the overlay (Verus has no byte view of `str`; "
             "the function only ever looks at the bytes); `X.first() == Some(&C)` -> `(X.len() > 0 && X[0] == C)` (definition).")
def r17(text):
    t, n1 = re.subn(r"\bpath\.as_bytes\(\)", "path", text)
    t, n2 = re.subn(r"\b(\w+)\.first\(\)\s*==\s*Some\(&(b'(?:[^'\\]|\\.)')\)", r"(\1.len() > 0 && \1[0] == \2)", t)
    return t, n1 + n2


@rule("R19b", "Byte-slice tail borrow `&X[a..]` -> `slice_from(X, a)` (verified definitional helper; `a <= len` is its precondition, "
              "the panic condition of the indexing).")
def r19b(text):
    n = 0
    while True:
        m = re.search(r"&(\w+)\[([^\[\]]*?)\.\.\]", text)
        if not m:
            break
        text = text[:m.start()] + "slice_from(%s, %s)" % (m.group(1), m.group(2).strip()) + text[m.end():]
        n += 1
    return text, n


@rule("R35", "Definition of `Option::get_or_insert_with` in statement position: `X.get_or_insert_with(|| E);` -> "
             "`if X.is_none() { X = Some(E); }`.")
def r35(text):
    n = 0
    while True:
        m = re.search(r"\.\s*get_or_insert_with\(\s*\|\|", text)
        if not m:
            break
        o = text.index("(", m.start())
        toks = tokenize(text[o:])
        c = o + toks[match_close(toks, 0)].start
        inner = text[m.end():c].strip()
        rs = _receiver_start(text, m.start())
        recv = text[rs:m.start()].rstrip()
        e = c + 1
        if text[e:e + 1] == ";":
            e += 1
        rep = "if %s.is_none() { %s = Some(%s); }" % (recv, recv, inner)
        old = text[rs:e]
        rep = rep + "\n" * max(0, old.count("\n") - rep.count("\n"))
        text = text[:rs] + rep + text[e:]
        n += 1
    return text, n


@rule("T_fsdir", "Type-level (dir.rs FsDir): `std::os::unix::io::RawFd` -> `i32` (its definition on Unix); fields made `pub`.")
def t_fsdir(text):
    t, n = _subn([(r"\bstd::os::unix::io::RawFd\b", "i32")], text)
    t, n2 = re.subn(r"(?m)^(\s+)(?!pub\b)(\w+\s*:)", r"\1pub \2", t)
    return t, n + n2


@rule("T_node", "Type-level (dir.rs Node): `std::fs::File` / `std::fs::Metadata` fields -> opaque `FileStub` / `MetaStub` "
                "(the encoding methods never look at them); fields made `pub`.")
def t_node(text):
    t, n = _subn([(r"\bstd::fs::File\b", "FileStub"), (r"\bstd::fs::Metadata\b", "MetaStub")], text)
    t, n2 = re.subn(r"(?m)^(\s+)(?!pub\b)(\w+\s*:)", r"\1pub \2", t)
    return t, n + n2
