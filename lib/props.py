"""Property -> deciding units.  Only units that exist are listed; MANIFEST.json is generated from this (tools/gen_manifest.py)."""

GLOBAL_ASSUMPTIONS = [
    "Verus 0.2026.09.13, Z3, rustc are sound; Verus's encoding of &mut (old/final) is faithful",
    "the rewrite rules listed under trusted_base preserve meaning (each is a local, stated rewrite; provenance hashes per function are in functions_under_contract)",
    "every external_body / assume_specification / axiom / uninterp item listed under trusted_base (contracts on std, http, httpdate, bytes, futures, flate2) holds",
    "machine integers are machine integers (u64/usize, no mathematical idealisation); usize is 64-bit",
    "unsafe code (HeaderValue::from_maybe_shared_unchecked, platform.rs) is not verified",
]

PROPS = {
    "C01": {"units": ["glue", "streams"]},
    "C02": {"units": ["glue", "range", "streams"]},
    "C03": {"units": ["glue", "range"]},
    "C04": {"units": ["glue", "cond", "etag"]},
    "C05": {"units": ["glue", "etag"]},
    "C06": {"units": ["glue", "streams"]},
    "C07": {"units": ["streams"]},
    "C08": {"units": ["chunker"]},
    "C10": {"units": ["chunker"]},
    "C11": {"units": ["chunker"]},
    "C12": {"units": ["streams", "chunker"]},
    "C13": {"units": ["glue", "range", "cond", "etag", "streams"]},
    "C14": {"units": ["glue", "cond", "etag"]},
    "C15": {"units": ["glue"]},
    "C20": {"units": ["streams", "chunker"]},
}

NOT_APPLICABLE = [
    {"property_id": "C09", "reason": "about the bytes flate2/miniz_oxide emit (valid gzip member, decodability after flush): no contract within reach can express or decide DEFLATE validity; the in-reach parts (bytes reach the encoder in order, coding headers) are covered under C08/C17"},
    {"property_id": "C18", "reason": "decided by pread/fstat semantics, unsafe FFI in platform.rs and an async closure inside futures unfold + tokio block_in_place: Verus supports neither async nor FFI, Kani has no model of those syscalls"},
]
NOTES = "One driver: ./check <ID> --tier quick|thorough. Exit 2 (inconclusive: lost anchor, tool error, rlimit) never occurs on the unchanged tree."
