"""Property -> deciding units.  Only units that exist are listed; MANIFEST.json is generated from this (tools/gen_manifest.py)."""

GLOBAL_ASSUMPTIONS = [
    "Verus 0.2026.09.13, Z3, rustc are sound; Verus's encoding of &mut (old/final) is faithful",
    "the rewrite rules listed under trusted_base preserve meaning (each is a local, stated rewrite; provenance hashes per function are in functions_under_contract)",
    "every external_body / assume_specification / axiom / uninterp item listed under trusted_base (contracts on std, http, httpdate, bytes, futures, flate2) holds",
    "machine integers are machine integers (u64/usize, no mathematical idealisation); usize is 64-bit",
    "unsafe code (HeaderValue::from_maybe_shared_unchecked, platform.rs) is not verified",
]

PROPS = {
    "C01": {"units": ["glue", "streams"]},
    "C02": {"units": ["glue", "range", "streams"]},
    "C03": {"units": ["glue", "range"], "kani": ["K1"]},
    "C04": {"units": ["glue", "cond", "etag"]},
    "C05": {"units": ["glue", "etag"]},
    "C06": {"units": ["glue", "streams"]},
    "C07": {"units": ["streams"]},
    "C08": {"units": ["chunker", "build"]},
    "C10": {"units": ["chunker"]},
    "C11": {"units": ["chunker", "build"]},
    "C12": {"units": ["streams", "chunker"]},
    "C13": {"units": ["glue", "range", "cond", "etag", "streams"], "kani": ["K1"]},
    "C14": {"units": ["glue", "cond", "etag"]},
    "C15": {"units": ["glue", "build"]},
    "C16": {"units": ["gz"], "kani": ["K4"]},
    "C17": {"units": ["build", "gz", "chunker"]},
    "C19": {"units": ["path"], "native_always": ["path"], "native_bound": "FsDir::get on every path of <= 4 segments over {a, sub, .., ., ..., ..a, a.., empty, secret} with optional leading/trailing slash, plus NUL injections (26 343 paths) against a directory tree with a secret outside the base; .gz-sibling clause: 10 paths (plain file, file + .gz file, file + .gz directory, only .gz, nothing + .gz directory, nested, directory + .gz file, ...) x 9 Accept-Encoding values x auto_gzip on/off, checking the file opened, encoding(), encoding_varies() and add_encoding_headers"},
    "C18": {"units": ["file"], "native_always": ["file"], "native_bound": "ChunkedReadFile on real temporary files: sizes {0, 1, 65535, 65536, 65537, 131072, 200001} x ranges with both ends on / next to the 64 KiB read-size boundaries and the file end (254 ranges) x truncation to 8 lengths after 0, 1 or 2 items (240) x ETag stability / sensitivity for 9 modification times (3 before the epoch) x {same, append, touch ns, touch s, replace} x a directory as non-regular file"},
    "C20": {"units": ["streams", "chunker"]},
}

# properties for which lib/witness.py has native oracles (used to arbitrate failures of shared invariant clauses)
NATIVE_ORACLES = {"C01", "C02", "C03", "C04", "C05", "C06", "C07", "C08", "C10", "C11", "C12", "C13", "C14", "C15", "C16", "C17", "C18", "C19", "C20"}

NOT_APPLICABLE = [
    {"property_id": "C09", "reason": "about the bytes flate2/miniz_oxide emit (valid gzip member, decodability after flush): no contract within reach can express or decide DEFLATE validity; the in-reach parts (bytes reach the encoder in order, coding headers) are covered under C08/C17"},
]
NOTES = "One driver: ./check <ID> --tier quick|thorough. Exit 2 (inconclusive: lost anchor, tool error, rlimit) never occurs on the unchanged tree."


# ---- per-property claim texts (MANIFEST level_claimed.text / level_note) and evidence annotations ----
T_VERUS = "contract-based deductive verification: Verus on the real function bodies, extracted mechanically from /repo on every run"
META = {
 "C01": ("proof", "Every obligation is discharged by Verus on the real bodies: serve/serve_inner/prepare_multipart fix Content-Length to the length the body stream accounts for (ExactLenStream::new(b-a, ..), MultipartStream::new(len = exact multipart length)); ExactLenStream/MultipartStream/Body::poll_frame step contracts plus the trace lemma give 'never more than announced, exactly announced at a clean end' for every chunking, any number of polls and parts, all u64 lengths.",
         "assumed: http/httpdate/bytes/futures contracts in prelude/*.rs; integer Display is decimal (header values are checked as format literal + arguments); the entity's Data conversions preserve bytes", [], ["Body::from(&str)/From<String> conversions (str bytes are opaque to Verus)"]),
 "C02": ("proof", "serve_inner's contract pins Content-Range (a, b-1, L), the single get_range(a..b) call and the ExactLen body of that very stream, with a < b <= L from range::parse's proved contract; ExactLenStream/poll_frame pass each chunk through unchanged; MultipartStream emits chunks only from the stream created for ranges[i].",
         "assumed: the entity returns the right bytes for a range (it is the quantified input); str lexing primitives (split/find/trim/slicing/u64::from_str) as uninterpreted functions", [], []),
 "C03": ("proof", "range::parse is proved against an RFC 7233 resolver written from the statement (all u64 numbers, any number of list elements, overflow-free); serve_inner is proved to dispatch None/one/several/unsatisfiable to 200/206/multipart-or-200/416 with the exact Content-Range, the multipart decision being the 80-bytes-per-part estimate < L. Kani re-checks parse on the real str code for header templates.",
         "assumed: meaning of core::str primitives and u64::from_str inside Verus (opaque Str); Kani K1 ties them to the real code only for the listed template shapes (bounded)", ["Kani K1: complete in numbers and entity length per template; templates: 1 spec (3 forms), other unit / no hyphen; 2 specs with OWS in the thorough tier"], []),
 "C04": ("proof", "etag.rs weak_eq/strong_eq/List::next are proved against a byte-level RFC 7232 specification (any tag bytes, commas and spaces inside tags), any_match/none_match against the list semantics (loop invariants, any list length), parse_modified_hdrs against the precedence rules with whole-second date comparison, and serve_inner maps (412 iff .., 304 iff ..) in that order.",
         "assumed: httpdate parses/prints whole seconds; HeaderMap::get returns the first value (repeated header lines are outside the ghost view)", [], []),
 "C05": ("proof", "serve_inner's If-Range gate is proved: Range is honoured iff If-Range is absent or a tag-form value that strong_eq's the entity's ETag (strong_eq proved byte-exact in unit etag); every other value gives the full 200 without Content-Range and entity headers only on 200.", "as C04", [], []),
 "C06": ("proof", "prepare_multipart is proved to render each part header as delimiter + Content-Range(a, b-1, L) + rendered entity headers + blank line and to return exactly sum(header_i + |range_i|) + 9 (or an error exactly on u64 overflow); MultipartStream::poll_next is proved to emit header i, the chunks of the stream created for ranges[i], ..., the trailer, in order; serve ties the two together (same ranges, same length, request order).",
         "assumed: integer Display is decimal (part header text is a format literal plus arguments); HeaderMap iteration yields the entity's headers in order", [], ["that the formatted numbers contain only digits (Display of u64)"]),
 "C07": ("proof", "ExactLenStream::poll_next / Body::poll_frame are proved to turn an early end, an inner error or an over-long chunk into an error and never to pass more than `remaining`; MultipartStream::poll_next is proved to report an error whenever the current part's stream faults and to be terminal afterwards; the trace lemma lifts this to all chunkings and fault positions.", "as C01", [], []),
 "C08": ("proof", "chunker::Writer::{write,flush,flush_helper,drop} and Reader::poll_next are proved against a FIFO specification (accepted prefix, non-empty chunks, flush publishes the buffer, end only when queue empty and writer dropped); the composition lemma shows delivered ++ queued ++ buffered == accepted is preserved by every operation, hence for every history; BodyWriter delegates to it (proved).",
         "assumed: std::sync::Mutex gives mutual exclusion and is never poisoned (rule R4); Vec capacity behaviour (no reallocation within capacity, Vec::new() has capacity 0); queued bytes fit in usize", [], ["gzip writer path (GzEncoder is opaque)"]),
 "C10": ("proof", "safety part only: Reader::poll_next is proved to return Pending only with nothing available and the caller's waker registered; every producer critical section that publishes something is proved to empty the waker slot and to wake exactly the waker it took (ghost wake log); the no-lost-wake-up invariant is proved inductive over all interleavings of those critical sections and wake deliveries (any waker ids, spurious polls).",
         "assumed: Mutex atomicity (R4), Waker::will_wake implies same task, wake-ups issued are eventually delivered and the producer thread runs (liveness is NOT proved, only the invariant that makes it follow)", [], ["liveness under a real scheduler"]),
 "C11": ("proof", "Writer::abort is proved to install the error, release the queue and wake; Reader::poll_next to report that error once and fuse; is_end_stream to be false while the error is pending; BodyWriter to be Dead after abort and to fail every later write/flush; Reader::drop (whose existence is an obligation) to fuse the shared state and release the queue, after which flush of buffered data and chunk-completing writes fail (proved).",
         "as C08; flush with an empty buffer after disconnect may still return Ok (nothing is buffered)", [], ["gzip writer internals"]),
 "C12": ("proof", "Body::size_hint/is_end_stream dispatch is proved; remaining == bytes still owed is the proved invariant of ExactLenStream/MultipartStream; Reader's hint is proved to be lower = queued bytes, upper only once the writer is gone, and end-of-stream only when nothing (not even an abort error) is pending.", "as C01 and C08", [], []),
 "C13": ("proof", "Verus proves every extracted body free of arithmetic overflow, out-of-range indexing/slicing and failing unwrap/expect/assert for all inputs (no preconditions on serve beyond well-formed ghost views); the status set and the 405 clause are postconditions of serve; buffer capacities of the header formatters are obligations.",
         "assumed: no panics inside http/httpdate/bytes (their contracts); fmt_http_date needs a time in [epoch, year 9999]", ["Kani K1 (panic freedom of range::parse on real str code per template)"], ["panics inside dependencies; entities that panic"]),
 "C14": ("proof", "serve_inner's contract gives Accept-Ranges, the unchanged ETag, Date and Last-Modified = min(mtime, now) on 200/206/304/412/416 and entity headers exactly on 200 / 206-without-If-Range; the echo clauses of any_match/none_match/parse_modified_hdrs/strong_eq give the cache-friendly answers.",
         "assumed: httpdate round-trips whole seconds. KNOWN FINDING: for a future-dated entity the served Last-Modified is the clock, so the date echo does not round-trip", [], []),
 "C15": ("proof", "serve_inner is proved to read nothing and return an empty body for HEAD, and its status/header clauses are method-independent (the HEAD instance is reported for C15 when the GET instance verifies); streaming_body/build are proved to return the same headers and no writer for HEAD.", "as C01", [], []),
 "C16": ("proof", "should_gzip is proved, for any number of list elements, to implement the stated preference over the lexical primitives (split, split_once, trim, strip_prefix, literal comparison, qvalue); parse_qvalue's lexing is checked by Kani on all ASCII strings of length <= 6.",
         "assumed: meaning of core::str primitives (opaque Str)", ["Kani K4: parse_qvalue on ASCII strings of length <= 6 (bounded; grammatical qvalues have <= 5 bytes)"], []),
 "C17": ("proof", "streaming_body/with_*/build are proved: Vary always, Content-Encoding: gzip iff should_gzip && level > 0 iff the writer is the Gzipped variant with that level, for both AsRequest impls; chunk_size > 0 is a stated precondition (the real code panics otherwise).",
         "assumed: flate2 produces gzip data from a Gzipped writer (C09 is not claimed)", [], ["the bytes flate2 emits"]),
 "C18": ("proof", "Validator half proved, stream half bounded. Verus proves on the real bodies: new_with_metadata refuses whatever is not a regular file and captures exactly the length, inode and modification time the OS reported at construction; len() / last_modified() return those; etag() never panics (whatever the modification time, also before the epoch) and renders the strong-tag literal over (inode, len, sign, seconds, nanoseconds), and a lemma shows that argument tuple to be injective in (inode, len, mtime) - identical for an unmodified file, different once length, mtime or identity changes. get_range (an async closure around pread inside futures unfold + tokio block_in_place) is outside the verifier's reach: a bounded native check on real files stands in (labelled bounded, never counted as proved).",
         "assumed: core::fmt renders `{:x}` as plain lower-case hex and distinct argument tuples of the `:`-separated literal differently; platform::file_info (fstat FFI) reports the file's length / inode / mtime; Metadata::is_file; Arc is transparent", ["native bounded stand-in for get_range: see native_bound"], ["get_range beyond the bounded family; platform.rs (unsafe FFI)"]),
 "C19": ("proof", "validate_path is proved, for byte strings of any length, to refuse exactly the paths that are absolute, contain NUL or have a `..` segment; Node::encoding / encoding_varies / add_encoding_headers are proved to report gzip exactly when the .gz sibling was substituted and Vary exactly when auto_gzip is on. FsDir::get itself (async, spawn_blocking, openat) is outside the verifier's reach: a bounded native check of it stands in (labelled bounded, not counted as proved).",
         "assumed: memchr returns the first index; the file-opening clauses (openat, .gz lookup, directories) are OS behaviour and not covered", ["native bounded stand-in for FsDir::get when validate_path cannot be analysed: paths of <= 4 segments"], ["FsDir::get beyond the bounded families (symlinks, other trees)"]),
 "C20": ("proof", "terminal states are proved absorbing: ExactLenStream with remaining == 0 and a finished inner stream keeps returning None; MultipartStream is terminal (cur = None, state = end, remaining = 0) after any error or end and returns None from then on without indexing; Reader fuses after end/error; Once bodies take() their value.",
         "assumed: the entity's streams stay finished once finished or failed (as the property states)", [], []),
}
for _k, (_lvl, _text, _note, _bounded, _notcov) in META.items():
    if _k in PROPS:
        PROPS[_k].update({"level_text": _text, "level_note": _note, "bounded": _bounded, "not_covered": _notcov,
                          "technique": T_VERUS + ("; Kani/CBMC harnesses on the real crate for the string lexers (bounded, labelled)" if PROPS[_k].get("kani") else "")})
