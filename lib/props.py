"""Property -> deciding units.  Only units that exist are listed; MANIFEST.json is generated from this (tools/gen_manifest.py)."""

GLOBAL_ASSUMPTIONS = [
    "Verus 0.2026.09.13, Z3, rustc are sound; Verus's encoding of &mut (old/final) is faithful",
    "the rewrite rules listed under trusted_base preserve meaning (each is a local, stated rewrite; provenance hashes per function are in functions_under_contract)",
    "every external_body / assume_specification / axiom / uninterp item listed under trusted_base (contracts on std, http, httpdate, bytes, futures, flate2) holds",
    "machine integers are machine integers (u64/usize, no mathematical idealisation); usize is 64-bit",
    "unsafe code (HeaderValue::from_maybe_shared_unchecked, platform.rs) is not verified",
]

PROPS = {
    "C01": {"units": ["glue", "streams"]},
    "C02": {"units": ["glue", "range", "streams"]},
    "C03": {"units": ["glue", "range"]},
    "C04": {"units": ["glue", "cond", "etag"]},
    "C05": {"units": ["glue", "etag"]},
    "C06": {"units": ["glue", "streams"]},
    "C07": {"units": ["streams"]},
    "C08": {"units": ["chunker", "build"]},
    "C10": {"units": ["chunker"]},
    "C11": {"units": ["chunker", "build"]},
    "C12": {"units": ["streams", "chunker"]},
    "C13": {"units": ["glue", "range", "cond", "etag", "streams"]},
    "C14": {"units": ["glue", "cond", "etag"]},
    "C15": {"units": ["glue", "build"]},
    "C16": {"units": ["gz"]},
    "C17": {"units": ["build", "gz", "chunker"]},
    "C19": {"units": ["path"]},
    "C20": {"units": ["streams", "chunker"]},
}

# properties for which lib/witness.py has native oracles (used to arbitrate failures of shared invariant clauses)
NATIVE_ORACLES = {"C01", "C02", "C03", "C04", "C05", "C06", "C07", "C08", "C10", "C11", "C12", "C13", "C14", "C15", "C19", "C20"}

NOT_APPLICABLE = [
    {"property_id": "C09", "reason": "about the bytes flate2/miniz_oxide emit (valid gzip member, decodability after flush): no contract within reach can express or decide DEFLATE validity; the in-reach parts (bytes reach the encoder in order, coding headers) are covered under C08/C17"},
    {"property_id": "C18", "reason": "decided by pread/fstat semantics, unsafe FFI in platform.rs and an async closure inside futures unfold + tokio block_in_place: Verus supports neither async nor FFI, Kani has no model of those syscalls"},
]
NOTES = "One driver: ./check <ID> --tier quick|thorough. Exit 2 (inconclusive: lost anchor, tool error, rlimit) never occurs on the unchanged tree."
