#!/bin/bash
# tools/refactor_own.sh: every stored behaviour- / property-preserving edit (seeded/refactors/*.diff) against the checks of the
# properties that read the files it touches (tools/mutate.py FILE_PROPS), 4 in parallel.  rc must be 0 or 2, never 1.
V=$(cd "$(dirname "$0")/.." && pwd)
export V
cd $V
run_one() {
  f=$1; n=$(basename $f .diff); D=/tmp/rfown/$n; rm -rf $D; mkdir -p $D; rsync -a --exclude target --exclude .git /repo/ $D/
  (cd $D && patch -p1 -s < $V/$f) || { echo "refactor=$n PATCH-FAILED"; rm -rf $D; return; }
  PROPS=$(python3 - "$V/$f" <<'PY'
import re, sys
sys.path.insert(0, sys.argv[1].rsplit('/seeded/', 1)[0] + '/tools')
FILE_PROPS = {"src/body.rs": ["C01", "C02", "C07", "C12", "C20"], "src/serving.rs": ["C01", "C02", "C03", "C04", "C05", "C06", "C07", "C12", "C13", "C14", "C15", "C20"],
    "src/range.rs": ["C02", "C03", "C13"], "src/etag.rs": ["C04", "C05", "C13", "C14"], "src/chunker.rs": ["C08", "C09", "C10", "C11", "C12", "C20"],
    "src/gzip.rs": ["C08", "C09", "C11", "C17"], "src/lib.rs": ["C15", "C16", "C17"], "src/file.rs": ["C18"], "src/dir.rs": ["C19"]}
ps = set()
for m in re.finditer(r"^\+\+\+ b/(\S+)", open(sys.argv[1]).read(), re.M):
    ps.update(FILE_PROPS.get(m.group(1), []))
print(" ".join(sorted(ps)))
PY
)
  for p in $PROPS; do
    out=$(./check $p --repo $D 2>&1); rc=$?
    echo "refactor=$n prop=$p rc=$rc $(echo "$out" | grep "^obligation failed\|^INCONCLUSIVE" | cut -c1-160 | tr '\n' ';')"
  done
  H=$(python3 -c "import hashlib,os;print(hashlib.sha256(os.path.abspath('$D').encode()).hexdigest()[:8])")
  rm -rf $D $V/build/native/$H $V/build/kani/$H
}
export -f run_one
ls seeded/refactors/*.diff | xargs -P 4 -I{} bash -c 'run_one {}'
