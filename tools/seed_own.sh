#!/bin/bash
# tools/seed_own.sh [ids...]: every stored seed against the check of the property it breaks (plus OTHERS="Cxx Cyy" if given),
# on scratch copies of /repo, 6 seeds in parallel.  A quick form of tools/seed_matrix.sh (which runs all 20 checks per seed).
V=$(cd "$(dirname "$0")/.." && pwd)
export V
cd $V
IDS=${@:-$(ls seeded | grep '^C')}
run_one() {
  ID=$1; D=/tmp/seedown/$ID; rm -rf $D; mkdir -p $D; rsync -a --exclude target --exclude .git /repo/ $D/
  (cd $D && patch -p1 -s < $V/seeded/$ID/patch.diff) || { echo "seed=$ID PATCH-FAILED"; rm -rf $D; return; }
  for p in ${ID:0:3} ${OTHERS:-}; do
    out=$(./check $p --repo $D 2>&1); rc=$?
    echo "seed=$ID prop=$p rc=$rc $(echo "$out" | grep "^obligation failed\|^INCONCLUSIVE" | cut -c1-160 | tr '\n' ';')"
  done
  H=$(python3 -c "import hashlib,os;print(hashlib.sha256(os.path.abspath('$D').encode()).hexdigest()[:8])")
  rm -rf $D $V/build/native/$H $V/build/kani/$H
}
export -f run_one
echo $IDS | tr ' ' '\n' | xargs -P 6 -I{} bash -c 'run_one {}'
