#!/usr/bin/env python3
"""tools/gen_seed_meta.py: write seeded/<id>/meta.json for every stored seed from its confirm.json and SEED_REPORT.md
(which property it breaks, what it needs in order to manifest, what was run to confirm it).  An existing meta.json is
updated, hand-written keys are kept."""
import json, os, re, glob, sys
ROOT = os.path.join(os.path.dirname(os.path.abspath(__file__)), '..', 'seeded')
def section(md, *names):
    for n in names:
        m = re.search(r'^#+\s*[^\n]*' + n + r'[^\n]*\n(.*?)(?=^#+\s|\Z)', md, re.S | re.M | re.I)
        if m and m.group(1).strip(): return re.sub(r'\s+', ' ', m.group(1).strip())
    return None
for d in sorted(glob.glob(os.path.join(ROOT, 'C*'))):
    if not os.path.isdir(d): continue
    sid = os.path.basename(d)
    meta_p = os.path.join(d, 'meta.json')
    meta = json.load(open(meta_p)) if os.path.exists(meta_p) else {}
    conf = json.load(open(os.path.join(d, 'confirm.json'))) if os.path.exists(os.path.join(d, 'confirm.json')) else {}
    md = open(os.path.join(d, 'SEED_REPORT.md')).read() if os.path.exists(os.path.join(d, 'SEED_REPORT.md')) else ''
    title = (re.search(r'^#\s*(.*)$', md, re.M).group(1).strip() if re.search(r'^#\s*(.*)$', md, re.M) else sid)
    meta.setdefault('id', sid)
    meta['breaks_property'] = meta.get('breaks_property') or sid[:3]
    meta['title'] = meta.get('title') or title
    meta['needs_to_manifest'] = meta.get('needs_to_manifest') or section(md, 'needed to manifest', 'needs', 'manifest', 'trigger') or 'see SEED_REPORT.md'
    meta['files'] = sorted(set(re.findall(r'^\+\+\+ b/(\S+)', open(os.path.join(d, 'patch.diff')).read(), re.M)))
    demo = [f for f in ('seed_demo.rs',) if os.path.exists(os.path.join(d, f))]
    meta['demonstration'] = demo[0] if demo else None
    meta['confirmed'] = {
        'how': 'tools/seed_intake.sh in the author\'s scratch worktree: (1) cargo test --workspace --offline --no-fail-fast with the change (every pre-existing group passes; the only failing group is the demo), (2) cargo test --offline --test seed_demo with the change, (3) the same after git apply -R patch.diff',
        'suite_ok_groups_with_change': conf.get('suite_ok_groups'), 'suite_failed_groups_with_change (demo only)': conf.get('suite_failed_groups'),
        'demo_with_change': conf.get('demo_with_change'), 'demo_without_change': conf.get('demo_without_change'),
        'logs': [f for f in ('suite_with_change.txt', 'demo_with_change.txt', 'demo_without_change.txt') if os.path.exists(os.path.join(d, f))],
    }
    if os.path.exists(os.path.join(d, 'REBASED.txt')): meta['rebased'] = open(os.path.join(d, 'REBASED.txt')).read().strip()
    meta['author'] = 'fresh sub-agent given only the property text and its own scratch worktree of /repo'
    det = {}
    for mf in sorted(glob.glob(os.path.join(ROOT, 'matrix_*.txt')), key=os.path.getmtime):
        for line in open(mf):
            m = re.match(r'seed=(\S+) prop=(\S+) rc=(\d+) ?(.*)', line)
            if m and m.group(1) == sid: det[m.group(2)] = {'exit': int(m.group(3)), 'first_lines': m.group(4).strip()[:300], 'matrix': os.path.basename(mf)}
    own = det.get(meta['breaks_property'])
    meta['detected_by'] = {'own_property': own, 'other_properties_alarmed': sorted(k for k, v in det.items() if v['exit'] == 1 and k != meta['breaks_property']),
                           'note': 'last stored matrix run of ./check against this change applied to a scratch copy; DESIGN.md section 6 has the per-seed discussion'}
    json.dump(meta, open(meta_p, 'w'), indent=1); open(meta_p, 'a').write('\n')
    if meta['needs_to_manifest'] == 'see SEED_REPORT.md': print('no manifest section:', sid, file=sys.stderr)
