#!/bin/bash
# tools/refactor_matrix.sh: behaviour-preserving edits (seeded/refactors/*.diff) must never raise a VIOLATION (exit 0 or 2 only).
V=$(cd "$(dirname "$0")/.." && pwd)
if [ "${SNAP:-0}" = 1 ]; then V=/tmp/verif-snap-rf; rm -rf $V; mkdir -p $V/build/kani; rsync -a --exclude build --exclude replays --exclude .git /verif/ $V/; rsync -a /verif/build/kani/cache $V/build/kani/; fi
cd $V
PROPS=$(python3 -c "import sys; sys.path.insert(0,'lib'); import props; print(' '.join(sorted(props.PROPS)))")
for f in seeded/refactors/*.diff; do
  n=$(basename $f .diff); D=/tmp/rfrun/$n; rm -rf $D; mkdir -p $D; rsync -a --exclude target --exclude .git /repo/ $D/
  (cd $D && patch -p1 -s < $V/$f) || { echo "refactor=$n PATCH-FAILED"; continue; }
  for p in $PROPS; do
    out=$(VERIF_NO_WITNESS=${NOWIT:-0} ./check $p --repo $D 2>&1); rc=$?
    [ $rc -ne 0 ] && echo "refactor=$n prop=$p rc=$rc $(echo "$out" | grep "^obligation failed\|^INCONCLUSIVE" | cut -c1-160 | tr '\n' ';')"
  done
  echo "refactor=$n done"
  rm -rf $D $V/build/native/$(python3 -c "import hashlib,os;print(hashlib.sha256(os.path.abspath('$D').encode()).hexdigest()[:8])") $V/build/kani/$(python3 -c "import hashlib,os;print(hashlib.sha256(os.path.abspath('$D').encode()).hexdigest()[:8])")
done
