#!/usr/bin/env python3
"""Regenerate RULES.md from lib/rules.py."""
import os, sys
V = os.path.dirname(os.path.dirname(os.path.abspath(__file__)))
sys.path.insert(0, os.path.join(V, "lib"))
import rules, extract
def key(k):
    import re
    m = re.match(r"([A-Z]+_?)(\d+)?(\w*)", k)
    return (0 if k.startswith("R") else 1, int(m.group(2)) if m.group(2) else 0, k)
out = ["# Rewrite-rule catalogue (generated from lib/rules.py by tools/gen_rules_md.py; do not edit)", "",
       "Each rule is a fixed, local, textual rewrite applied to the body text copied from /repo; none contains http-serve logic.",
       "`STD` in a `//@fn` directive stands for the definitional unfoldings %s; %s do not depend on the receiver's type and are applied to every extracted body." % (", ".join(extract.STD_RULES), ", ".join(extract.ALWAYS_RULES)), "",
       "| id | rewrite and why it preserves meaning / what it drops |", "|----|---|"]
for k in sorted(rules.RULES, key=key):
    out.append("| %s | %s |" % (k, rules.DOC[k].replace("|", "\\|")))
open(os.path.join(V, "RULES.md"), "w").write("\n".join(out) + "\n")
print(len(rules.RULES), "rules")
