#!/usr/bin/env python3
"""tools/mutate.py gen|run|report: a small mutation campaign against the checks (not part of any registered command).

gen   : enumerate first-order mutants of the non-test part of /repo/src/*.rs with a handful of operators and write them to
        /tmp/mut/mutants.jsonl (file, line, operator, old line, new line)
run N : for each mutant (N workers): scratch copy, apply, `cargo test` (existing suite) - killed by the suite -> 'suite';
        does not compile -> 'nocompile'; otherwise run the checks of the properties that read that file; record which raise a
        VIOLATION (rc 1), which are undecided (rc 2), which pass (rc 0)
report: summary + the survivors (compile, pass the suite, no check alarms) for triage (equivalent mutant or a weak contract?)
"""
import json
import os
import re
import subprocess
import sys
import hashlib
import concurrent.futures as cf

REPO = "/repo"
OUT = "/tmp/mut"
V = os.path.dirname(os.path.dirname(os.path.abspath(__file__)))
sys.path.insert(0, os.path.join(V, "lib"))

FILE_PROPS = {
    "src/body.rs": ["C01", "C02", "C07", "C12", "C20"],
    "src/serving.rs": ["C01", "C02", "C03", "C04", "C05", "C06", "C07", "C12", "C13", "C14", "C15", "C20"],
    "src/range.rs": ["C02", "C03", "C13"],
    "src/etag.rs": ["C04", "C05", "C13", "C14"],
    "src/chunker.rs": ["C08", "C09", "C10", "C11", "C12", "C20"],
    "src/gzip.rs": ["C08", "C09", "C11", "C17"],
    "src/lib.rs": ["C15", "C16", "C17"],
    "src/file.rs": ["C18"],
    "src/dir.rs": ["C19"],
}

OPS = [
    ("rel", r"(?<![<>=!\-])<=(?!=)", "<"), ("rel", r"(?<![<>=!\-])>=(?!=)", ">"), ("rel", r"(?<![<>=!\-&|])\s<\s(?![<=])", " <= "), ("rel", r"(?<![<>=!\-])\s>\s(?![>=])", " >= "),
    ("eq", r"==", "!="), ("eq", r"!=", "=="),
    ("bool", r"&&", "||"), ("bool", r"\|\|", "&&"),
    ("arith", r"\+ 1\b", "+ 0"), ("arith", r"- 1\b", "- 0"), ("arith", r"\+= 1\b", "+= 2"), ("arith", r"<< 1\b", "<< 0"),
    ("neg", r"\bif !", "if "), ("neg", r"\bif (?!let\b|!)", "if !"),
    ("const", r"\b80\b", "79"), ("const", r"\b1000\b", "999"), ("const", r"\b0u64\b", "1u64"), ("const", r"Some\(true\)", "Some(false)"), ("const", r"Ok\(true\)", "Ok(false)"),
    ("const", r"\btrue\b", "false"), ("const", r"\bfalse\b", "true"),
    ("del", r"^\s*(this|self|l)\.[\w\.]+\s*(=|\+=|-=)[^=].*;\s*$", None), ("del", r"^\s*\*\w+\s*(=|\+=|-=)[^=].*;\s*$", None), ("del", r"^\s*\w+\.wake\(\);\s*$", None),
    ("del", r"^\s*range_hdr = None;\s*$", None), ("del", r"^\s*continue;.*$", None),
]


OPS2 = [
    ("minmax", r"\bmin\(", "max("), ("minmax", r"\bmax\(", "min("),
    ("lit", r"\+ 3\b", "+ 2"), ("lit", r"\+ 2\b", "+ 1"), ("lit", r"\[1\.\.\]", "[0..]"), ("lit", r"\[2\.\.\]", "[1..]"), ("lit", r"\[3\.\.\]", "[2..]"), ("lit", r"\b4\b", "3"),
    ("lit", r"saturating_add\(1\)", "saturating_add(0)"), ("lit", r"\* 3\b", "* 2"), ("lit", r"\b100\b", "10"), ("lit", r"\b10\b", "100"), ("lit", r"\b20\b", "19"),
    ("opt", r"\.is_some\(\)", ".is_none()"), ("opt", r"\.is_none\(\)", ".is_some()"), ("opt", r"\.is_empty\(\)", ".len() == 1"), ("opt", r"\.is_err\(\)", ".is_ok()"), ("opt", r"\.is_dir\(\)", ".is_file()"),
    ("poll", r"Poll::Ready\(None\)", "Poll::Pending"), ("poll", r"return Poll::Pending", "return Poll::Ready(None)"),
    ("str", r'b"W/\\""', 'b"W/"'), ("str", r'"q="', '"q"'), ("str", r'"bytes="', '"bytes"'), ("str", r"b'\\t'", "b'\\n'"), ("str", r"\[' ', '\\t'\]", "[' ', ' ']"),
    ("take", r"\.take\(\)", ".clone()"), ("unwrap", r"unwrap_or\(0\)", "unwrap_or(1)"), ("unwrap", r"unwrap_or\(1\)", "unwrap_or(0)"),
    ("status", r"PARTIAL_CONTENT", "OK"), ("status", r"NOT_MODIFIED", "OK"), ("status", r"PRECONDITION_FAILED", "BAD_REQUEST"), ("status", r"RANGE_NOT_SATISFIABLE", "PARTIAL_CONTENT"),
    ("hdr", r"header::CONTENT_RANGE", "header::CONTENT_LOCATION"), ("hdr", r"header::LAST_MODIFIED", "header::DATE"), ("hdr", r"header::IF_MATCH", "header::IF_NONE_MATCH"),
    ("hdr", r"header::IF_MODIFIED_SINCE", "header::IF_UNMODIFIED_SINCE"), ("hdr", r"header::IF_UNMODIFIED_SINCE", "header::IF_MODIFIED_SINCE"), ("hdr", r"header::VARY", "header::VIA"),
    ("del", r"^\s*(res|resp) = res\.\w+\(.*;\s*$", None), ("del", r"^\s*\w+\.(push|push_back|extend_from_slice|append|insert)\(.*\);\s*$", None),
]


OPS3 = [
    ("swap", r"\br\.start\b", "r.end"), ("swap", r"\br\.end\b", "r.start"), ("swap", r"\brange\.start\b", "range.end"), ("swap", r"\brange\.end\b", "range.start"),
    ("swap", r"\bweak_eq\(", "strong_eq("), ("swap", r"\bstrong_eq\(", "weak_eq("), ("swap", r"\bgzip_q\b", "identity_q"), ("swap", r"\bidentity_q\b", "gzip_q"), ("swap", r"\bstar_q\b", "gzip_q"),
    ("swap", r"\bany_match\b", "none_match"), ("swap", r"\bprecondition_failed\b", "not_modified"), ("swap", r"\bnot_modified\b", "precondition_failed"),
    ("swap", r"\bfirst\b", "end"), ("swap", r"\blast\b", "len"), ("swap", r"\blen - last\b", "last"), ("swap", r"\bd_len - remaining\b", "d_len"), ("swap", r"\bnew_rem\b", "d_len"),
    ("swap", r"\bwriter_dropped\b", "true"), ("swap", r"\bdropping\b", "false"), ("swap", r"\bdropping\b", "true"), ("swap", r"\bbody_needed\b", "true"), ("swap", r"self\.should_gzip\b", "true"),
    ("swap", r"\binclude_entity_headers_on_range\b", "true"), ("swap", r"\binclude_entity_headers\b", "true"), ("swap", r"\bis_gzipped\b", "auto_gzip"), ("swap", r"self\.auto_gzip\b", "true"),
    ("swap", r"\bMethod::HEAD\b", "Method::GET"), ("swap", r"\bMethod::GET\b", "Method::HEAD"), ("swap", r"Some\(quality\)", "Some(1000)"), ("swap", r"\bthis\.remaining\b", "this.len"),
    ("swap", r"\bcap\b", "n"), ("swap", r"&buf\[\.\.n\]", "buf"), ("swap", r"Ok\(n\)", "Ok(buf.len())"), ("swap", r"\bready_bytes\b", "0"),
]


def nontest_lines(path):
    src = open(path).read().split("\n")
    end = len(src)
    for i, ln in enumerate(src):
        if re.match(r"\s*#\[cfg\(test\)\]", ln):
            end = i
            break
    return src, end


def gen(ops=None, append=False):
    ops = ops or OPS
    os.makedirs(OUT, exist_ok=True)
    muts = []
    for f in FILE_PROPS:
        src, end = nontest_lines(os.path.join(REPO, f))
        in_doc = False
        for i in range(end):
            ln = src[i]
            st = ln.strip()
            if st.startswith("//") or st.startswith("#[") or st.startswith("use ") or not st:
                continue
            code = ln.split("//")[0]
            if '"' in code and re.search(r'"[^"]*(==|<|>|&&|\|\||true|false)[^"]*"', code):
                continue
            for (op, pat, rep) in ops:
                for m in re.finditer(pat, code):
                    if rep is None:
                        new = re.sub(r"\S.*$", "{}", ln, count=1) if False else ln[:len(ln) - len(ln.lstrip())] + "();" if False else ""
                        newln = ln[:len(ln) - len(ln.lstrip())] + "// (deleted)"
                    else:
                        newln = code[:m.start()] + rep + code[m.end():] + ("//" + ln.split("//", 1)[1] if "//" in ln else "")
                    if newln == ln:
                        continue
                    muts.append({"file": f, "line": i + 1, "op": op, "old": ln, "new": newln})
                    if rep is None:
                        break
    # de-duplicate
    seen, out = set(), []
    if append:
        out = [json.loads(l) for l in open(os.path.join(OUT, "mutants.jsonl"))]
        seen = set((m["file"], m["line"], m["new"]) for m in out)
    for m in muts:
        k = (m["file"], m["line"], m["new"])
        if k not in seen:
            seen.add(k)
            m["id"] = "m%04d" % len(out)
            out.append(m)
    with open(os.path.join(OUT, "mutants.jsonl"), "w") as fh:
        for m in out:
            fh.write(json.dumps(m) + "\n")
    print(len(out), "mutants", {op: sum(1 for m in out if m["op"] == op) for op in sorted(set(m["op"] for m in out))})


def _run(cmd, cwd, env, timeout):
    """subprocess.run with a process group, so that test binaries a mutant sends into an endless loop die with the timeout."""
    import signal
    p = subprocess.Popen(cmd, cwd=cwd, env=env, stdout=subprocess.PIPE, stderr=subprocess.STDOUT, text=True, start_new_session=True)
    try:
        out, _ = p.communicate(timeout=timeout)
        return p.returncode, out
    except subprocess.TimeoutExpired:
        try:
            os.killpg(p.pid, signal.SIGKILL)
        except Exception:
            pass
        try:
            p.communicate(timeout=10)
        except Exception:
            pass
        return None, ""


def run_one(m):
    d = os.path.join(OUT, "w", m["id"])
    res = dict(m)
    try:
        subprocess.run(["rm", "-rf", d], check=True)
        os.makedirs(d)
        subprocess.run(["rsync", "-a", "--exclude", "target", "--exclude", ".git", REPO + "/", d + "/"], check=True)
        p = os.path.join(d, m["file"])
        src = open(p).read().split("\n")
        assert src[m["line"] - 1] == m["old"]
        src[m["line"] - 1] = m["new"]
        open(p, "w").write("\n".join(src))
        env = dict(os.environ, CARGO_TARGET_DIR=os.path.join(OUT, "target-%s" % (int(m["id"][1:]) % NW)), CARGO_NET_OFFLINE="true")
        feats = ["--features", "dir"] if m["file"] == "src/dir.rs" else []
        rc, _ = _run(["cargo", "test", "--offline", "--no-run"] + feats, d, env, 900)
        if rc != 0:
            res["verdict"] = "nocompile"
            return res
        rc, _ = _run(["cargo", "test", "--offline", "--workspace"] + feats, d, env, 240)
        if rc != 0:
            res["verdict"] = "suite"          # fails (or hangs) the existing suite
            return res
        rcs = {}
        for pid in FILE_PROPS[m["file"]]:
            try:
                rc, out = _run([os.path.join(V, "check"), pid, "--repo", d], V, dict(os.environ), 1500)
                rcs[pid] = 2 if rc is None else rc
                if rc == 1:
                    res.setdefault("first", [x for x in out.split("\n") if x.startswith("obligation failed")][:1])
            except Exception:
                rcs[pid] = 2
        res["rcs"] = rcs
        res["verdict"] = "detected" if any(v == 1 for v in rcs.values()) else ("undecided" if any(v == 2 for v in rcs.values()) else "survived")
        return res
    except Exception as e:
        res["verdict"] = "error: %r" % (e,)
        return res
    finally:
        subprocess.run(["rm", "-rf", d])
        h = hashlib.sha256(os.path.abspath(d).encode()).hexdigest()[:8]
        subprocess.run(["rm", "-rf", os.path.join(V, "build", "native", h), os.path.join(V, "build", "kani", h)])


def run(nw, limit=None, sel=None):
    global NW
    NW = nw
    muts = [json.loads(l) for l in open(os.path.join(OUT, "mutants.jsonl"))]
    done = set()
    rp = os.path.join(OUT, "results.jsonl")
    if os.path.exists(rp):
        done = set(json.loads(l)["id"] for l in open(rp))
    todo = [m for m in muts if m["id"] not in done and (sel is None or re.search(sel, m["file"]))]
    if limit:
        todo = todo[:limit]
    print("running", len(todo), "mutants with", nw, "workers")
    with cf.ThreadPoolExecutor(max_workers=nw) as ex, open(rp, "a") as fh:
        for r in ex.map(run_one, todo):
            fh.write(json.dumps(r) + "\n")
            fh.flush()


def report():
    rs = [json.loads(l) for l in open(os.path.join(OUT, "results.jsonl"))]
    c = {}
    for r in rs:
        c[r["verdict"]] = c.get(r["verdict"], 0) + 1
    print(len(rs), "mutants:", c)
    live = [r for r in rs if r["verdict"] in ("detected", "undecided", "survived")]
    print("of %d that compile and pass the existing suite: detected %d, undecided %d, survived %d" % (
        len(live), sum(r["verdict"] == "detected" for r in live), sum(r["verdict"] == "undecided" for r in live), sum(r["verdict"] == "survived" for r in live)))
    for r in rs:
        if r["verdict"] in ("survived", "undecided"):
            print("%s %-9s %s:%d [%s]\n    - %s\n    + %s   %s" % (r["id"], r["verdict"], r["file"], r["line"], r["op"], r["old"].strip(), r["new"].strip(), r.get("rcs")))


if __name__ == "__main__":
    if sys.argv[1] == "gen":
        gen()
    elif sys.argv[1] == "gen2":
        gen(OPS2, append=True)
    elif sys.argv[1] == "gen3":
        gen(OPS3, append=True)
    elif sys.argv[1] == "run":
        run(int(sys.argv[2]), int(sys.argv[3]) if len(sys.argv) > 3 and sys.argv[3].isdigit() else None, sys.argv[4] if len(sys.argv) > 4 else None)
    else:
        report()
