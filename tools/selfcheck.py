#!/usr/bin/env python3
"""tools/selfcheck.py: on the unchanged tree every overlay hint must find its anchor and every //@fn its function
(a lost hint degrades the unit: failures would then need a native witness before they count).  Exit 1 otherwise."""
import os, sys, glob
sys.path.insert(0, os.path.join(os.path.dirname(os.path.abspath(__file__)), "..", "lib"))
import extract
bad = 0
for p in sorted(glob.glob(os.path.join(os.path.dirname(os.path.abspath(__file__)), "..", "units", "*.rs"))):
    name = os.path.basename(p)[:-3]
    u = extract.extract_unit(name)
    print("%-8s fns=%d lost_hints=%s missing=%s" % (name, len(u.fns), u.lost_hints, u.missing))
    bad += len(u.lost_hints)
sys.exit(1 if bad else 0)
