#!/bin/bash
# tools/seed_matrix.sh [ids...]: run every claimed check against every stored seed (scratch copies of /repo), 4 seeds in parallel.
cd /verif
IDS=${@:-$(ls seeded | grep '^C')}
PROPS=$(python3 -c "import sys; sys.path.insert(0,'lib'); import props; print(' '.join(sorted(props.PROPS)))")
run_one() {
  ID=$1; D=/tmp/seedrun/$ID; rm -rf $D; mkdir -p $D; rsync -a --exclude target --exclude .git /repo/ $D/
  (cd $D && patch -p1 -s < /verif/seeded/$ID/patch.diff) || { echo "seed=$ID PATCH-FAILED"; return; }
  for p in $PROPS; do
    out=$(./check $p --repo $D 2>&1); rc=$?
    echo "seed=$ID prop=$p rc=$rc $(echo "$out" | grep "^obligation failed\|^INCONCLUSIVE" | cut -c1-140 | tr '\n' ';')"
  done
  rm -rf $D /verif/build/native/$(python3 -c "import hashlib,os;print(hashlib.sha256(os.path.abspath('$D').encode()).hexdigest()[:8])")
}
export -f run_one; export PROPS
echo $IDS | tr ' ' '\n' | xargs -P 4 -I{} bash -c 'run_one {}' 
