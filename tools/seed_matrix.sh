#!/bin/bash
# tools/seed_matrix.sh [ids...]: run every claimed check against every stored seed (scratch copies of /repo), 4 seeds in parallel.
# SNAP=1: run from a snapshot of /verif (so units/prelude/lib may be edited meanwhile); the Kani result cache is copied along.
V=$(cd "$(dirname "$0")/.." && pwd)
if [ "${SNAP:-0}" = 1 ]; then V=/tmp/verif-snap; rm -rf $V; mkdir -p $V/build/kani; rsync -a --exclude build --exclude replays --exclude .git /verif/ $V/; rsync -a /verif/build/kani/cache $V/build/kani/; fi
export V
cd $V
IDS=${@:-$(ls seeded | grep '^C')}
PROPS=$(python3 -c "import sys; sys.path.insert(0,'lib'); import props; print(' '.join(sorted(props.PROPS)))")
run_one() {
  ID=$1; D=/tmp/seedrun/$ID; rm -rf $D; mkdir -p $D; rsync -a --exclude target --exclude .git /repo/ $D/
  (cd $D && patch -p1 -s < $V/seeded/$ID/patch.diff) || { echo "seed=$ID PATCH-FAILED"; return; }
  for p in $PROPS; do
    out=$(./check $p --repo $D 2>&1); rc=$?
    echo "seed=$ID prop=$p rc=$rc $(echo "$out" | grep "^obligation failed\|^INCONCLUSIVE" | cut -c1-140 | tr '\n' ';')"
  done
  H=$(python3 -c "import hashlib,os;print(hashlib.sha256(os.path.abspath('$D').encode()).hexdigest()[:8])")
  rm -rf $D $V/build/native/$H $V/build/kani/$H
}
export -f run_one; export PROPS
echo $IDS | tr ' ' '\n' | xargs -P 4 -I{} bash -c 'run_one {}' 
