#!/bin/bash
# tools/run_seed.sh <ID> [props...]: apply a stored seed to /repo, run the checks, undo. Prints one line per property.
ID=$1; shift
PROPS=${@:-C01 C02 C03 C04 C05 C06 C07 C08 C10 C11 C12 C13 C14 C15 C16 C17 C19 C20}
git -C /repo apply /verif/seeded/$ID/patch.diff || exit 1
trap 'git -C /repo checkout -- .' EXIT
for p in $PROPS; do
  out=$(cd /verif && ./check $p 2>&1); rc=$?
  v=$(echo "$out" | grep -c "^VIOLATION")
  echo "seed=$ID prop=$p rc=$rc violations=$v $(echo "$out" | grep "^obligation failed\|^INCONCLUSIVE" | cut -c1-150 | tr '\n' ';')"
done
