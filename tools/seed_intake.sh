#!/bin/bash
# tools/seed_intake.sh <ID> [worktree]: confirm a seeded change independently and store it under /verif/seeded/<ID>/
set -u
ID=$1; WT=${2:-/tmp/wt-$ID}; OUT=/verif/seeded/$ID
export CARGO_TARGET_DIR=$WT/target CARGO_NET_OFFLINE=true
mkdir -p $OUT
cd $WT || exit 1
git diff -- src > $OUT/patch.diff
[ -s $OUT/patch.diff ] || { echo "no src change in $WT"; exit 1; }
cp tests/seed_demo.rs $OUT/seed_demo.rs 2>/dev/null || { echo "no demo"; exit 1; }
[ -f SEED_REPORT.md ] && cp SEED_REPORT.md $OUT/SEED_REPORT.md
echo "== suite with change (excluding demo)"
cargo test --workspace --offline --no-fail-fast 2>&1 | grep -E "^test result|Running|FAILED" > $OUT/suite_with_change.txt
SUITE_OK=$(grep -c "^test result: ok" $OUT/suite_with_change.txt); SUITE_FAIL=$(grep "^test result: FAILED" $OUT/suite_with_change.txt | wc -l)
echo "== demo with change"
cargo test --offline ${SEED_FEATURES:-} --test seed_demo 2>&1 | tail -30 > $OUT/demo_with_change.txt; grep -q "test result: FAILED\|panicked\|error\[" $OUT/demo_with_change.txt && DEMO_WITH=fail || DEMO_WITH=pass
git apply -R $OUT/patch.diff || exit 1
echo "== demo without change"
cargo test --offline ${SEED_FEATURES:-} --test seed_demo 2>&1 | tail -15 > $OUT/demo_without_change.txt; grep -q "^test result: ok" $OUT/demo_without_change.txt && DEMO_WITHOUT=pass || DEMO_WITHOUT=fail
git apply $OUT/patch.diff
echo "suite: ok-groups=$SUITE_OK failed-groups=$SUITE_FAIL (the only failing group must be seed_demo); demo with=$DEMO_WITH without=$DEMO_WITHOUT"
echo "{\"id\": \"$ID\", \"suite_ok_groups\": $SUITE_OK, \"suite_failed_groups\": $SUITE_FAIL, \"demo_with_change\": \"$DEMO_WITH\", \"demo_without_change\": \"$DEMO_WITHOUT\"}" > $OUT/confirm.json
