#!/usr/bin/env python3
"""tools/gen_baseline_bodies.py: record the token sequence of every function body under contract as it is on the tree the
overlays were written for (units/baseline_bodies.json).  lib/extract.py uses it to recognise a body that differs from that
tree only by a consistent renaming of local variables, and then renames the overlay's hints and invariants alike."""
import os, sys, glob, json
ROOT = os.path.join(os.path.dirname(os.path.abspath(__file__)), "..")
sys.path.insert(0, os.path.join(ROOT, "lib"))
import extract
from rstok import tokenize
out = {}
orig = extract._emit_body
def hook(unit, fnrec, dirs):
    it, src = fnrec["_item"], fnrec["_src"]
    out.setdefault(unit.name, {})[fnrec["qual"]] = [t.text for t in tokenize(src[it.body_open:it.body_close + 1])]
    return orig(unit, fnrec, dirs)
extract._emit_body = hook
extract._BASELINE = {}
for p in sorted(glob.glob(os.path.join(ROOT, "units", "*.rs"))):
    extract.extract_unit(os.path.basename(p)[:-3])
json.dump(out, open(os.path.join(ROOT, "units", "baseline_bodies.json"), "w"), indent=0, sort_keys=True)
print({k: len(v) for k, v in out.items()})
