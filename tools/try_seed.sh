#!/bin/bash
# tools/try_seed.sh <ID> <props...>: run checks for one stored seed on a scratch copy of /repo, full output (debug helper)
ID=$1; shift
D=/tmp/seedrun-try/$ID; rm -rf $D; mkdir -p $D; rsync -a --exclude target --exclude .git /repo/ $D/
(cd $D && patch -p1 -s < /verif/seeded/$ID/patch.diff) || { echo PATCH-FAILED; exit 1; }
cd /verif
for p in "$@"; do echo "##### seed=$ID prop=$p"; ./check $p --repo $D 2>&1 | cut -c1-400 | tail -${TAILN:-25}; echo "rc=${PIPESTATUS[0]}"; done
H=$(python3 -c "import hashlib,os;print(hashlib.sha256(os.path.abspath('$D').encode()).hexdigest()[:8])"); rm -rf $D /verif/build/native/$H /verif/build/kani/$H
