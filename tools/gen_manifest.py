#!/usr/bin/env python3
"""Generate MANIFEST.json from lib/props.py (claimed properties) and lib/props.py:NOT_APPLICABLE."""
import json, os, sys
HERE = os.path.dirname(os.path.dirname(os.path.abspath(__file__)))
sys.path.insert(0, os.path.join(HERE, "lib"))
import props
checks = []
for pid in sorted(props.PROPS):
    c = props.PROPS[pid]
    checks.append({
        "property_id": pid,
        "quick_cmd": "./check %s --tier quick" % pid,
        "thorough_cmd": "./check %s --tier thorough" % pid,
        "evidence_file": "/verif/evidence/%s.json" % pid,
        "replay_cmd_template": "./check %s --replay {path}" % pid,
        "engine": "contracts",
        "level_claimed": {"category": "proof", "text": c.get("level_text", ""), "design_ref": c.get("design_ref", "DESIGN.md section 3 / %s" % pid)},
        "level_note": c.get("level_note", ""),
        "technique": c.get("technique", "contract-based deductive verification (Verus on mechanically extracted real function bodies)"),
    })
na = list(props.NOT_APPLICABLE)
allp = [json.loads(l)["id"] for l in open(os.path.join(HERE, "properties.jsonl"))]
for pid in allp:
    if pid not in props.PROPS and not any(x["property_id"] == pid for x in na):
        na.append({"property_id": pid, "reason": "not claimed yet: the deciding units for this property are not built in this revision"})
m = {
    "version": 1,
    "setup_cmd": "./setup.sh",
    "hooks": {"guard": "kani", "enable": "no hook commits in /repo: Verus units are extracted from the working tree into /verif/build; Kani harness modules are attached to a scratch copy under cfg(kani)", "baseline_off_cmd": "cd /repo && cargo test --workspace --no-fail-fast --offline", "source_commits": [], "add_only": True},
    "engines": [
        {"name": "contracts", "path": "/verif/check", "serves_properties": sorted(props.PROPS), "kind_free_text": "Verus 0.2026.09.13 on real function bodies extracted mechanically on every run (lib/extract.py, units/*.rs, prelude/*.rs) + Kani 0.68 harnesses on the real crate for byte/str lexers (kani/*.rs); native replay of counterexamples (native/*.rs)"},
    ],
    "checks": checks,
    "not_applicable": na,
    "notes": props.NOTES,
}
json.dump(m, open(os.path.join(HERE, "MANIFEST.json"), "w"), indent=1)
print("MANIFEST.json written:", len(checks), "checks,", len(props.NOT_APPLICABLE), "not applicable")
