#!/bin/bash
# Re-run every claimed check on /repo's current tree (quick tier) so that the committed evidence files describe it.
cd /verif
for p in $(python3 -c "import sys; sys.path.insert(0,'lib'); import props; print(' '.join(sorted(props.PROPS)))"); do
  ./check $p | tail -1
done
