// Native replay / witness driver for `http_serve::streaming_body` (see serve_witness.rs for the role of these files).
// Scenario line: id|chunk_size|accept_encoding_hex or -|gzip_level|METHOD|op,op,...
//   ops: W<hex> write, L<hex> write_all, F flush, P poll the body once (waker A), Q poll with a second waker B,
//        D drain: poll (waker A) until Pending / end / error, at most 400000 frames -> d<hex of all data>:<frames>:<shortest frame>:<P|N|E>
//        I from now on the consumer behind waker A polls the body at once, inside `wake()` (the earliest schedule a real executor
//          could produce); those polls are reported after the op that caused them as `~<poll result>`
//        A abort, X drop the writer, R drop the body, G call http_serve::should_gzip on the request headers (-> g0 / g1); `!a/b` after a result = wake-ups of A / B caused by that op
// Observation: id|status|hdrs|op results, comma separated:
//   W -> w<k> or we ; L -> lo / le ; F -> fo / fe ; P -> <lower>:<upper|->:<eos>>D<hex> | E | N | P ; A -> a ; X -> x ; R -> r
//   |panic hex or -
use http_body::Body as _;
use std::io::Write;
use std::pin::Pin;
use std::sync::{Arc, Mutex};
use std::task::{Context, Poll};

type BoxError = Box<dyn std::error::Error + Send + Sync>;

fn unhex(s: &str) -> Vec<u8> {
    (0..s.len() / 2).map(|i| u8::from_str_radix(&s[2 * i..2 * i + 2], 16).unwrap()).collect()
}
fn hex(b: &[u8]) -> String {
    b.iter().map(|x| format!("{:02x}", x)).collect()
}

struct CountWaker(std::sync::atomic::AtomicUsize);
impl std::task::Wake for CountWaker {
    fn wake(self: Arc<Self>) {
        self.0.fetch_add(1, std::sync::atomic::Ordering::SeqCst);
    }
}

type TheBody = http_serve::Body<bytes::Bytes, BoxError>;

fn poll_once(b: &mut TheBody, cx: &mut Context<'_>) -> String {
    let h = b.size_hint();
    let eos = b.is_end_stream();
    let pre = format!("{}:{}:{}", h.lower(), h.upper().map(|u| u.to_string()).unwrap_or("-".into()), if eos { 1 } else { 0 });
    let ev = match Pin::new(b).poll_frame(cx) {
        Poll::Ready(Some(Ok(fr))) => format!("D{}", hex(&fr.into_data().unwrap())),
        Poll::Ready(Some(Err(_))) => "E".to_string(),
        Poll::Ready(None) => "N".to_string(),
        Poll::Pending => "P".to_string(),
    };
    format!("{}>{}", pre, ev)
}

/// Waker A: counts wake-ups and, once enabled (op `I`), polls the body right away from inside `wake()`.
struct InlineWaker {
    n: std::sync::atomic::AtomicUsize,
    enabled: std::sync::atomic::AtomicBool,
    busy: std::sync::atomic::AtomicBool,
    body: Arc<Mutex<Option<TheBody>>>,
    log: Mutex<Vec<String>>,
    me: Mutex<Option<std::task::Waker>>,
}
impl std::task::Wake for InlineWaker {
    fn wake(self: Arc<Self>) {
        use std::sync::atomic::Ordering::SeqCst;
        self.n.fetch_add(1, SeqCst);
        if self.enabled.load(SeqCst) && !self.busy.swap(true, SeqCst) {
            if let Ok(mut g) = self.body.try_lock() {
                if let Some(b) = g.as_mut() {
                    let w = self.me.lock().unwrap().clone().unwrap();
                    let mut cx = Context::from_waker(&w);
                    let r = poll_once(b, &mut cx);
                    self.log.lock().unwrap().push(r);
                }
            }
            self.busy.store(false, SeqCst);
        }
    }
}

/// Waker C (op `K`): counts wake-ups; its first `clone()` after being armed runs the armed producer step on another thread.
struct HookWaker {
    n: std::sync::atomic::AtomicUsize,
    pending: Mutex<Option<Box<dyn FnOnce() -> String + Send>>>,
    handle: Mutex<Option<std::thread::JoinHandle<String>>>,
}
impl HookWaker {
    fn run_hook(&self) {
        let f = self.pending.lock().unwrap().take();
        if let Some(f) = f {
            let (tx, rx) = std::sync::mpsc::channel();
            let h = std::thread::spawn(move || { let r = f(); let _ = tx.send(()); r });
            let _ = rx.recv_timeout(std::time::Duration::from_millis(100));
            *self.handle.lock().unwrap() = Some(h);
        }
    }
}
static HOOK_VT: std::task::RawWakerVTable = std::task::RawWakerVTable::new(hw_clone, hw_wake, hw_wake_by_ref, hw_drop);
unsafe fn hw_clone(p: *const ()) -> std::task::RawWaker {
    let a = Arc::from_raw(p as *const HookWaker);
    let b = a.clone();
    std::mem::forget(a);
    b.run_hook();
    std::task::RawWaker::new(Arc::into_raw(b) as *const (), &HOOK_VT)
}
unsafe fn hw_wake(p: *const ()) { let a = Arc::from_raw(p as *const HookWaker); a.n.fetch_add(1, std::sync::atomic::Ordering::SeqCst); }
unsafe fn hw_wake_by_ref(p: *const ()) { (*(p as *const HookWaker)).n.fetch_add(1, std::sync::atomic::Ordering::SeqCst); }
unsafe fn hw_drop(p: *const ()) { drop(Arc::from_raw(p as *const HookWaker)); }
fn hook_waker(h: Arc<HookWaker>) -> std::task::Waker {
    unsafe { std::task::Waker::from_raw(std::task::RawWaker::new(Arc::into_raw(h) as *const (), &HOOK_VT)) }
}

fn c_is_q(op: &str) -> bool {
    op.starts_with('Q')
}

fn run_one(line: &str) -> String {
    let f: Vec<&str> = line.split('|').collect();
    let id = f[0];
    let chunk: usize = f[1].parse().unwrap();
    // gzip level: `6`, or several successive with_gzip_level calls `0+6`
    let levels: Vec<u32> = f[3].split('+').map(|x| x.parse().unwrap()).collect();
    let method = http::Method::from_bytes(f[4].as_bytes()).unwrap();
    let mut req = http::Request::builder().method(method).uri("/");
    if f[2] != "-" {
        req = req.header("accept-encoding", http::HeaderValue::from_bytes(&unhex(f[2])).unwrap());
    }
    let req = req.body(()).unwrap();
    let out = Arc::new(Mutex::new(String::new()));
    let out2 = out.clone();
    let ops: Vec<String> = f[5].split(',').filter(|x| !x.is_empty()).map(|x| x.to_string()).collect();
    let r = std::panic::catch_unwind(std::panic::AssertUnwindSafe(move || {
        let (resp, w): (http::Response<http_serve::Body<bytes::Bytes, BoxError>>, Option<http_serve::BodyWriter<bytes::Bytes, BoxError>>) =
            {
                let mut b = http_serve::streaming_body(&req).with_chunk_size(chunk);
                for l in &levels {
                    b = b.with_gzip_level(*l);
                }
                b.build()
            };
        let mut s = format!("{}|{}|", id, resp.status().as_u16());
        let hs: Vec<String> = resp.headers().iter().map(|(k, v)| format!("{}={}", k.as_str(), hex(v.as_bytes()))).collect();
        s.push_str(&hs.join(","));
        s.push_str(if w.is_some() { "|" } else { "|nowriter," });
        let w: Arc<Mutex<Option<http_serve::BodyWriter<bytes::Bytes, BoxError>>>> = Arc::new(Mutex::new(w));
        let body: Arc<Mutex<Option<TheBody>>> = Arc::new(Mutex::new(Some(resp.into_body())));
        let cw = Arc::new(InlineWaker { n: std::sync::atomic::AtomicUsize::new(0), enabled: std::sync::atomic::AtomicBool::new(false), busy: std::sync::atomic::AtomicBool::new(false),
                                        body: body.clone(), log: Mutex::new(Vec::new()), me: Mutex::new(None) });
        let cw_b = Arc::new(CountWaker(std::sync::atomic::AtomicUsize::new(0)));
        let waker = std::task::Waker::from(cw.clone());
        *cw.me.lock().unwrap() = Some(waker.clone());
        let waker_b = std::task::Waker::from(cw_b.clone());
        let hook = Arc::new(HookWaker { n: std::sync::atomic::AtomicUsize::new(0), pending: Mutex::new(None), handle: Mutex::new(None) });
        let mut res: Vec<String> = Vec::new();
        for op in &ops {
            let (c, arg) = op.split_at(1);
            let wakes_before = cw.n.load(std::sync::atomic::Ordering::SeqCst);
            let wakes_before_b = cw_b.0.load(std::sync::atomic::Ordering::SeqCst);
            let wakes_before_c = hook.n.load(std::sync::atomic::Ordering::SeqCst);
            let mut cx = Context::from_waker(if c_is_q(op) { &waker_b } else { &waker });
            let mut r = match c {
                "W" => match w.lock().unwrap().as_mut() {
                    Some(w) => match w.write(&unhex(arg)) { Ok(k) => format!("w{}", k), Err(_) => "we".into() },
                    None => "w-".into(),
                },
                "L" => match w.lock().unwrap().as_mut() {
                    Some(w) => match w.write_all(&unhex(arg)) { Ok(()) => "lo".into(), Err(_) => "le".into() },
                    None => "l-".into(),
                },
                "F" => match w.lock().unwrap().as_mut() {
                    Some(w) => match w.flush() { Ok(()) => "fo".into(), Err(_) => "fe".into() },
                    None => "f-".into(),
                },
                "I" => { cw.enabled.store(true, std::sync::atomic::Ordering::SeqCst); "i".into() }
                "D" => match body.lock().unwrap().as_mut() {
                    Some(b) => {
                        let mut data: Vec<u8> = Vec::new();
                        let (mut frames, mut shortest, mut term) = (0usize, usize::MAX, 'L');
                        while frames < 400000 {
                            match Pin::new(&mut *b).poll_frame(&mut cx) {
                                Poll::Ready(Some(Ok(fr))) => {
                                    let d = fr.into_data().unwrap();
                                    frames += 1;
                                    shortest = shortest.min(d.len());
                                    data.extend_from_slice(&d);
                                }
                                Poll::Ready(Some(Err(_))) => { term = 'E'; break; }
                                Poll::Ready(None) => { term = 'N'; break; }
                                Poll::Pending => { term = 'P'; break; }
                            }
                        }
                        format!("d{}:{}:{}:{}", hex(&data), frames, if frames == 0 { 0 } else { shortest }, term)
                    }
                    None => "d-".into(),
                },
                "G" => format!("g{}", if http_serve::should_gzip(req.headers()) { 1 } else { 0 }),
                "A" => { if let Some(w) = w.lock().unwrap().as_mut() { w.abort("scripted abort".into()); } "a".into() }
                "X" => { let old = w.lock().unwrap().take(); drop(old); "x".into() }
                // `K<producer op>`: poll with waker C, whose `clone()` lets ANOTHER THREAD perform the producer op (F / X / A / L..)
                // and waits up to 100 ms for it: a producer step that lands inside the consumer's poll, at the earliest point the
                // consumer's own code runs foreign code.  With the waker stored under the lock the producer blocks until the poll
                // is over (and then must wake C); a poll that registers its waker late lets the step slip in unnoticed.
                "K" => {
                    let w2 = w.clone();
                    let pop = arg.to_string();
                    *hook.pending.lock().unwrap() = Some(Box::new(move || {
                        let (c2, a2) = pop.split_at(1);
                        let mut g = w2.lock().unwrap();
                        match c2 {
                            "F" => match g.as_mut() { Some(w) => match w.flush() { Ok(()) => "fo".into(), Err(_) => "fe".into() }, None => "f-".into() },
                            "L" => match g.as_mut() { Some(w) => match w.write_all(&unhex(a2)) { Ok(()) => "lo".into(), Err(_) => "le".into() }, None => "l-".into() },
                            "A" => { if let Some(w) = g.as_mut() { w.abort("scripted abort".into()); } "a".into() }
                            "X" => { let old = g.take(); drop(old); "x".into() }
                            _ => "?".into(),
                        }
                    }));
                    let before_c = hook.n.load(std::sync::atomic::Ordering::SeqCst);
                    let waker_c = hook_waker(hook.clone());
                    let mut cx_c = Context::from_waker(&waker_c);
                    let pr = { let mut g = body.lock().unwrap(); match g.as_mut() { Some(b) => poll_once(b, &mut cx_c), None => "p-".into() } };
                    let prod = match hook.handle.lock().unwrap().take() { Some(h) => h.join().unwrap_or("panic".into()), None => "notrun".into() };
                    hook.pending.lock().unwrap().take();
                    let wc = hook.n.load(std::sync::atomic::Ordering::SeqCst) - before_c;
                    format!("{}^{}^{}", pr, prod, wc)
                }
                "R" => { let old = body.lock().unwrap().take(); drop(old); "r".into() }
                "P" | "Q" => {
                    let mut g = body.lock().unwrap();
                    match g.as_mut() {
                        Some(b) => poll_once(b, &mut cx),
                        None => "p-".into(),
                    }
                }
                _ => panic!("bad op {}", op),
            };
            let wakes = cw.n.load(std::sync::atomic::Ordering::SeqCst) - wakes_before;
            let wakes_b = cw_b.0.load(std::sync::atomic::Ordering::SeqCst) - wakes_before_b;
            let wakes_c = hook.n.load(std::sync::atomic::Ordering::SeqCst) - wakes_before_c;
            if wakes_c > 0 {
                r.push_str(&format!("!{}/{}/{}", wakes, wakes_b, wakes_c));
            } else if wakes > 0 || wakes_b > 0 {
                r.push_str(&format!("!{}/{}", wakes, wakes_b));
            }
            for inl in cw.log.lock().unwrap().drain(..) {
                r.push('~');
                r.push_str(&inl);
            }
            res.push(r);
            *out2.lock().unwrap() = format!("{}{}", s, res.join(","));
        }
        *out2.lock().unwrap() = format!("{}{}", s, res.join(","));
    }));
    let mut s = out.lock().unwrap().clone();
    if s.is_empty() {
        s = format!("{}|0||", id);
    }
    s.push('|');
    match r {
        Ok(()) => s.push('-'),
        Err(p) => {
            let msg = p.downcast_ref::<String>().cloned().or_else(|| p.downcast_ref::<&str>().map(|x| x.to_string())).unwrap_or("panic".into());
            s.push_str(&hex(msg.as_bytes()));
        }
    }
    s
}

#[test]
fn verif_stream_witness() {
    let inp = match std::env::var("VERIF_SCENARIOS") {
        Ok(p) => p,
        Err(_) => return,
    };
    let outp = std::env::var("VERIF_OBS").unwrap();
    std::panic::set_hook(Box::new(|_| {}));
    let text = std::fs::read_to_string(inp).unwrap();
    let mut out = String::new();
    for line in text.lines() {
        if line.trim().is_empty() {
            continue;
        }
        // watchdog: a scenario that deadlocks (e.g. a wake-up issued while the shared lock is held, with a consumer that
        // polls at once) is reported as HANG instead of blocking the whole run
        let (tx, rx) = std::sync::mpsc::channel();
        let l2 = line.to_string();
        std::thread::spawn(move || { let _ = tx.send(run_one(&l2)); });
        match rx.recv_timeout(std::time::Duration::from_secs(20)) {
            Ok(s) => out.push_str(&s),
            Err(_) => out.push_str(&format!("{}|0||HANG|-", line.split('|').next().unwrap_or("?"))),
        }
        out.push('\n');
    }
    std::fs::write(outp, out).unwrap();
}
