// Native replay / witness driver for `http_serve::dir::FsDir::get` (path-validation clause of C19).
// Scenario line: id|path_hex ; observation: id|invalid|ok|err:<kind> plus whether the opened file is the secret outside the base.
// Scenario line: id|gz|path_hex|accept_encoding_hex or -|auto_gzip 0/1 (a second tree with plain files, .gz siblings and .gz
//   directories) ; observation: id|<invalid / err:Kind / ok:dir / ok:file:<content>>|enc=<none or value>|varies=0/1|hdrs name=hex,..
#![cfg(feature = "dir")]
use http::HeaderMap;
use std::io::Read;

fn unhex(s: &str) -> Vec<u8> {
    (0..s.len() / 2).map(|i| u8::from_str_radix(&s[2 * i..2 * i + 2], 16).unwrap()).collect()
}

#[tokio::test(flavor = "multi_thread")]
async fn verif_dir_witness() {
    let inp = match std::env::var("VERIF_SCENARIOS") {
        Ok(p) => p,
        Err(_) => return,
    };
    let outp = std::env::var("VERIF_OBS").unwrap();
    let tmp = tempfile::tempdir().unwrap();
    let base = tmp.path().join("base");
    for d in ["base", "base/a", "base/sub", "base/...", "base/..a", "base/a..", "base/sub/a", "base/a/sub", "base/.../a", "base/..a/a"] {
        std::fs::create_dir_all(tmp.path().join(d)).unwrap();
    }
    std::fs::write(tmp.path().join("secret"), b"TOP SECRET").unwrap();
    std::fs::write(base.join("secret"), b"inner").unwrap();
    std::fs::write(base.join("a/secret"), b"inner").unwrap();
    let fsdir = http_serve::dir::FsDir::builder().for_path(&base).unwrap();
    // tree for the .gz-sibling clause
    let gzb = tmp.path().join("gzbase");
    for d in ["gzbase", "gzbase/gzdir.gz", "gzbase/missing.gz", "gzbase/sub", "gzbase/dir"] {
        std::fs::create_dir_all(tmp.path().join(d)).unwrap();
    }
    for (f, c) in [("plain", "P:plain"), ("both", "P:both"), ("both.gz", "Z:both"), ("gzdir", "P:gzdir"), ("onlygz.gz", "Z:onlygz"),
                   ("sub/both", "P:sub/both"), ("sub/both.gz", "Z:sub/both"), ("dir.gz", "Z:dir"), ("both.gz.gz", "Z:both.gz")] {
        std::fs::write(gzb.join(f), c.as_bytes()).unwrap();
    }
    // a sibling that is neither a regular file nor a directory (a character device behind a symlink): "not a directory", so it is substituted
    std::fs::write(gzb.join("chardev"), b"P:chardev").unwrap();
    std::os::unix::fs::symlink("/dev/null", gzb.join("chardev.gz")).unwrap();
    // a sibling that exists but cannot be opened (a symlink onto itself: ELOOP): it is there and not a directory, so the
    // answer is the way opening it fails, not the plain file
    std::fs::write(gzb.join("loop"), b"P:loop").unwrap();
    std::os::unix::fs::symlink("loop.gz", gzb.join("loop.gz")).unwrap();
    let gz_on = http_serve::dir::FsDir::builder().for_path(&gzb).unwrap();
    let gz_off = http_serve::dir::FsDir::builder().auto_gzip(false).for_path(&gzb).unwrap();
    let text = std::fs::read_to_string(inp).unwrap();
    let mut out = String::new();
    for line in text.lines() {
        if line.trim().is_empty() {
            continue;
        }
        let fl: Vec<&str> = line.split('|').collect();
        if fl.len() > 1 && fl[1] == "gz" {
            let path = String::from_utf8(unhex(fl[2])).unwrap();
            let mut h = HeaderMap::new();
            if fl[3] != "-" {
                h.insert(http::header::ACCEPT_ENCODING, http::HeaderValue::from_bytes(&unhex(fl[3])).unwrap());
            }
            let d = if fl[4] == "1" { gz_on.clone() } else { gz_off.clone() };
            let obs = match d.get(&path, &h).await {
                Err(e) if e.kind() == std::io::ErrorKind::InvalidInput => "invalid|enc=-|varies=-|".to_string(),
                Err(e) => format!("err:{:?}|enc=-|varies=-|", e.kind()),
                Ok(node) => {
                    let enc = node.encoding().unwrap_or("none").to_string();
                    let varies = if node.encoding_varies() { 1 } else { 0 };
                    let mut out_h = HeaderMap::new();
                    node.add_encoding_headers(&mut out_h);
                    let hs: Vec<String> = out_h.iter().map(|(k, v)| format!("{}={}", k.as_str(), v.as_bytes().iter().map(|x| format!("{:02x}", x)).collect::<String>())).collect();
                    let what = if node.metadata().is_dir() {
                        "ok:dir".to_string()
                    } else {
                        let mut f = node.into_file();
                        let mut s = String::new();
                        let _ = f.read_to_string(&mut s);
                        format!("ok:file:{}", s)
                    };
                    format!("{}|enc={}|varies={}|{}", what, enc, varies, hs.join(","))
                }
            };
            out.push_str(&format!("{}|{}\n", fl[0], obs));
            continue;
        }
        let (id, hexp) = line.split_once('|').unwrap();
        let bytes = unhex(hexp);
        let path = String::from_utf8(bytes).unwrap();
        let r = fsdir.clone().get(&path, &HeaderMap::new()).await;
        let obs = match r {
            Err(e) if e.kind() == std::io::ErrorKind::InvalidInput => "invalid".to_string(),
            Err(e) => format!("err:{:?}", e.kind()),
            Ok(node) => {
                let md = node.metadata().clone();
                if md.is_dir() {
                    "ok:dir".to_string()
                } else {
                    let mut f = node.into_file();
                    let mut s = String::new();
                    let _ = f.read_to_string(&mut s);
                    if s == "TOP SECRET" { "ok:ESCAPED".to_string() } else { "ok:file".to_string() }
                }
            }
        };
        out.push_str(&format!("{}|{}\n", id, obs));
    }
    std::fs::write(outp, out).unwrap();
}
