// Native replay / witness driver for `http_serve::dir::FsDir::get` (path-validation clause of C19).
// Scenario line: id|path_hex ; observation: id|invalid|ok|err:<kind> plus whether the opened file is the secret outside the base.
#![cfg(feature = "dir")]
use http::HeaderMap;
use std::io::Read;

fn unhex(s: &str) -> Vec<u8> {
    (0..s.len() / 2).map(|i| u8::from_str_radix(&s[2 * i..2 * i + 2], 16).unwrap()).collect()
}

#[tokio::test(flavor = "multi_thread")]
async fn verif_dir_witness() {
    let inp = match std::env::var("VERIF_SCENARIOS") {
        Ok(p) => p,
        Err(_) => return,
    };
    let outp = std::env::var("VERIF_OBS").unwrap();
    let tmp = tempfile::tempdir().unwrap();
    let base = tmp.path().join("base");
    for d in ["base", "base/a", "base/sub", "base/...", "base/..a", "base/a..", "base/sub/a", "base/a/sub", "base/.../a", "base/..a/a"] {
        std::fs::create_dir_all(tmp.path().join(d)).unwrap();
    }
    std::fs::write(tmp.path().join("secret"), b"TOP SECRET").unwrap();
    std::fs::write(base.join("secret"), b"inner").unwrap();
    std::fs::write(base.join("a/secret"), b"inner").unwrap();
    let fsdir = http_serve::dir::FsDir::builder().for_path(&base).unwrap();
    let text = std::fs::read_to_string(inp).unwrap();
    let mut out = String::new();
    for line in text.lines() {
        if line.trim().is_empty() {
            continue;
        }
        let (id, hexp) = line.split_once('|').unwrap();
        let bytes = unhex(hexp);
        let path = String::from_utf8(bytes).unwrap();
        let r = fsdir.clone().get(&path, &HeaderMap::new()).await;
        let obs = match r {
            Err(e) if e.kind() == std::io::ErrorKind::InvalidInput => "invalid".to_string(),
            Err(e) => format!("err:{:?}", e.kind()),
            Ok(node) => {
                let md = node.metadata().clone();
                if md.is_dir() {
                    "ok:dir".to_string()
                } else {
                    let mut f = node.into_file();
                    let mut s = String::new();
                    let _ = f.read_to_string(&mut s);
                    if s == "TOP SECRET" { "ok:ESCAPED".to_string() } else { "ok:file".to_string() }
                }
            }
        };
        out.push_str(&format!("{}|{}\n", id, obs));
    }
    std::fs::write(outp, out).unwrap();
}
