// Native bounded stand-in / replay driver for `http_serve::ChunkedReadFile` (C18).  The stream half of C18 runs inside an
// `async` closure around pread(2) and tokio::block_in_place, outside the reach of Verus and Kani; this driver executes
// scenarios against the REAL compiled crate on real temporary files and prints what it observed; the oracle lives in
// lib/witness.py.  Bounded, never counted as proved.
//
// Scenario line:  id|kind|...
//   id|range|size|a|b|trunc_after_items or -|trunc_to
//        a file of `size` bytes (byte i = (31 i + 7) mod 251); entity built; get_range(a..b) drained item by item; after
//        `trunc_after_items` items the file is truncated to `trunc_to` bytes
//        -> id|len|lm_matches_fs(0/1)|items: comma separated D<len>:<ok 0/1> / E / N / LIMIT
//   id|etag|size|mtime_secs|mtime_nanos|action   action in same, append, touch, replace, shrinkgrow
//        -> id|etag1_hex|etag2_hex|panic_hex or -|ino:len:mtime observed at the first open|the same at the second open
//   id|nonregular  -> id|refused or accepted
use futures_util::StreamExt;
use http_serve::Entity;
use std::io::Write;
use std::time::{Duration, SystemTime};

type BoxError = Box<dyn std::error::Error + Send + Sync>;
type Crf = http_serve::ChunkedReadFile<bytes::Bytes, BoxError>;

fn content_byte(p: u64) -> u8 {
    ((p.wrapping_mul(31).wrapping_add(7)) % 251) as u8
}
fn hex(b: &[u8]) -> String {
    b.iter().map(|x| format!("{:02x}", x)).collect()
}
fn make_file(p: &std::path::Path, size: u64) {
    let mut f = std::fs::File::create(p).unwrap();
    let v: Vec<u8> = (0..size).map(content_byte).collect();
    f.write_all(&v).unwrap();
}
fn mk_time(secs: i64, nanos: u32) -> SystemTime {
    if secs >= 0 {
        SystemTime::UNIX_EPOCH + Duration::new(secs as u64, nanos)
    } else {
        SystemTime::UNIX_EPOCH - Duration::new((-secs) as u64, 0) + Duration::new(0, nanos)
    }
}

async fn run_one(dir: &std::path::Path, line: &str) -> String {
    let f: Vec<&str> = line.split('|').collect();
    let id = f[0];
    let p = dir.join(format!("f-{}", id.replace(':', "_")));
    match f[1] {
        "range" => {
            let size: u64 = f[2].parse().unwrap();
            let (a, b): (u64, u64) = (f[3].parse().unwrap(), f[4].parse().unwrap());
            let trunc_after: Option<usize> = if f[5] == "-" { None } else { Some(f[5].parse().unwrap()) };
            let trunc_to: u64 = f[6].parse().unwrap();
            make_file(&p, size);
            let file = std::fs::File::open(&p).unwrap();
            let md = file.metadata().unwrap();
            let crf = Crf::new(file, http::HeaderMap::new()).unwrap();
            let lm_ok = crf.last_modified() == md.modified().ok();
            let mut s = format!("{}|{}|{}|", id, crf.len(), if lm_ok { 1 } else { 0 });
            let mut st = crf.get_range(a..b);
            let mut pos = a;
            let mut items: Vec<String> = Vec::new();
            let mut k = 0usize;
            loop {
                if trunc_after == Some(k) {
                    std::fs::OpenOptions::new().write(true).open(&p).unwrap().set_len(trunc_to).unwrap();
                }
                if k >= 64 {
                    items.push("LIMIT".into());
                    break;
                }
                match st.next().await {
                    Some(Ok(d)) => {
                        let ok = d.iter().enumerate().all(|(i, x)| *x == content_byte(pos + i as u64));
                        pos += d.len() as u64;
                        items.push(format!("D{}:{}", d.len(), if ok { 1 } else { 0 }));
                    }
                    Some(Err(_)) => {
                        items.push("E".into());
                        break;
                    }
                    None => {
                        items.push("N".into());
                        break;
                    }
                }
                k += 1;
            }
            s.push_str(&items.join(","));
            s
        }
        "etag" => {
            let size: u64 = f[2].parse().unwrap();
            let (secs, nanos): (i64, u32) = (f[3].parse().unwrap(), f[4].parse().unwrap());
            let action = f[5];
            make_file(&p, size);
            let t = mk_time(secs, nanos);
            std::fs::OpenOptions::new().write(true).open(&p).unwrap().set_modified(t).unwrap();
            let p2 = p.clone();
            let act = action.to_string();
            // what the file system really recorded (its timestamp granularity may be coarser than what was asked for)
            fn ident(p: &std::path::Path) -> String {
                use std::os::unix::fs::MetadataExt;
                let m = std::fs::metadata(p).unwrap();
                format!("{}:{}:{}.{:09}", m.ino(), m.len(), m.mtime(), m.mtime_nsec())
            }
            let r = std::panic::catch_unwind(std::panic::AssertUnwindSafe(move || {
                let i1 = ident(&p2);
                let e1 = Crf::new(std::fs::File::open(&p2).unwrap(), http::HeaderMap::new()).unwrap().etag();
                match act.as_str() {
                    "same" => {}
                    "append" => {
                        let mut fa = std::fs::OpenOptions::new().append(true).open(&p2).unwrap();
                        fa.write_all(b"x").unwrap();
                        fa.set_modified(t).unwrap();
                    }
                    "touch" => {
                        std::fs::OpenOptions::new().write(true).open(&p2).unwrap().set_modified(t + Duration::new(0, 1000)).unwrap();
                    }
                    "touchsec" => {
                        std::fs::OpenOptions::new().write(true).open(&p2).unwrap().set_modified(t + Duration::new(1, 0)).unwrap();
                    }
                    "replace" => {
                        let q = p2.with_extension("new");
                        make_file(&q, size);
                        std::fs::OpenOptions::new().write(true).open(&q).unwrap().set_modified(t).unwrap();
                        // keep the old inode alive so that the new file cannot reuse its number
                        std::fs::rename(&p2, p2.with_extension("old")).unwrap();
                        std::fs::rename(&q, &p2).unwrap();
                    }
                    _ => panic!("bad action"),
                }
                let i2 = ident(&p2);
                let e2 = Crf::new(std::fs::File::open(&p2).unwrap(), http::HeaderMap::new()).unwrap().etag();
                (e1, e2, i1, i2)
            }));
            match r {
                Ok((e1, e2, i1, i2)) => format!(
                    "{}|{}|{}|-|{}|{}",
                    id,
                    e1.map(|v| hex(v.as_bytes())).unwrap_or("none".into()),
                    e2.map(|v| hex(v.as_bytes())).unwrap_or("none".into()),
                    i1,
                    i2
                ),
                Err(pn) => {
                    let msg = pn.downcast_ref::<String>().cloned().or_else(|| pn.downcast_ref::<&str>().map(|x| x.to_string())).unwrap_or("panic".into());
                    format!("{}|||{}", id, hex(msg.as_bytes()))
                }
            }
        }
        "nonregular" => {
            // `what` (third field, optional): "dir" (default) a directory, "chardev" the character device /dev/null
            let what = f.get(2).copied().unwrap_or("dir");
            let d = if what == "chardev" { std::path::PathBuf::from("/dev/null") } else { dir.join(format!("d-{}", id)) };
            if what != "chardev" { std::fs::create_dir_all(&d).unwrap(); }
            match Crf::new(std::fs::File::open(&d).unwrap(), http::HeaderMap::new()) {
                Ok(_) => format!("{}|accepted", id),
                Err(_) => format!("{}|refused", id),
            }
        }
        _ => panic!("bad scenario kind"),
    }
}

#[tokio::test(flavor = "multi_thread")]
async fn verif_file_witness() {
    let inp = match std::env::var("VERIF_SCENARIOS") {
        Ok(p) => p,
        Err(_) => return,
    };
    let outp = std::env::var("VERIF_OBS").unwrap();
    std::panic::set_hook(Box::new(|_| {}));
    let tmp = tempfile::tempdir().unwrap();
    let text = std::fs::read_to_string(inp).unwrap();
    let mut out = String::new();
    for line in text.lines() {
        if line.trim().is_empty() {
            continue;
        }
        out.push_str(&run_one(tmp.path(), line).await);
        out.push('\n');
    }
    std::fs::write(outp, out).unwrap();
}
