// Native replay / witness driver for `http_serve::serve` (copied into a scratch copy of /repo as an integration
// test by lib/witness.py).  It executes scenarios against the REAL compiled crate and prints what it observed;
// the oracles live in lib/witness.py.  It never decides a property by itself: it only turns a failed proof
// obligation (or a Kani counterexample) into a concrete failing input on the real code.
//
// Scenario line (fields separated by '|'):
//   id|METHOD|name=hex,name=hex|len|etag_hex or -|secs.nanos or -|ename=hex,..|script/script/..|extra_polls[|rope]
// `rope`: the entity's Data type is a non-contiguous `Buf` of 8-byte segments instead of `Bytes`
// script: comma separated events for successive get_range calls: D<n> (n correct bytes), B<n> (n wrong bytes),
//   E (error), N (end), P (pending), R (the rest of the range, correct).  After a script is exhausted the stream
//   stays finished (End forever).  Missing scripts default to "R,N".
use bytes::{Buf, Bytes};
use futures_core::Stream;
use http::header::{HeaderName, HeaderValue};
use http_body::Body as _;
use std::ops::Range;
use std::pin::Pin;
use std::sync::atomic::{AtomicUsize, Ordering};
use std::sync::{Arc, Mutex};
use std::task::{Context, Poll};
use std::time::{Duration, SystemTime};

type BoxError = Box<dyn std::error::Error + Send + Sync>;

fn content_byte(p: u64) -> u8 {
    ((p.wrapping_mul(31).wrapping_add(7)) % 251) as u8
}

#[derive(Clone, Debug)]
enum Ev {
    D(u64),
    B(u64),
    E,
    N,
    P,
    R,
}

/// A legal but non-contiguous `Buf`: a queue of segments of at most 8 bytes (`chunk()` is only the first segment).
struct Rope(std::collections::VecDeque<Bytes>);
impl Buf for Rope {
    fn remaining(&self) -> usize {
        self.0.iter().map(|b| b.len()).sum()
    }
    fn chunk(&self) -> &[u8] {
        self.0.front().map(|b| &b[..]).unwrap_or(&[])
    }
    fn advance(&mut self, mut cnt: usize) {
        while cnt > 0 {
            let f = self.0.front_mut().expect("advance past the end");
            if cnt >= f.len() {
                cnt -= f.len();
                self.0.pop_front();
            } else {
                f.advance(cnt);
                cnt = 0;
            }
        }
    }
}
impl From<Vec<u8>> for Rope {
    fn from(v: Vec<u8>) -> Rope {
        Rope(v.chunks(8).map(Bytes::copy_from_slice).collect())
    }
}
impl From<&'static [u8]> for Rope {
    fn from(v: &'static [u8]) -> Rope {
        Rope(v.chunks(8).map(Bytes::from_static).collect())
    }
}

trait WData: Buf + From<Vec<u8>> + From<&'static [u8]> + Send + Sync + 'static {}
impl WData for Bytes {}
impl WData for Rope {}

struct ScriptStream<D> {
    evs: Vec<Ev>,
    i: usize,
    pos: u64,
    end: u64,
    _d: std::marker::PhantomData<D>,
}
impl<D> Unpin for ScriptStream<D> {}

impl<D: WData> Stream for ScriptStream<D> {
    type Item = Result<D, BoxError>;
    fn poll_next(mut self: Pin<&mut Self>, cx: &mut Context<'_>) -> Poll<Option<Self::Item>> {
        if self.i >= self.evs.len() {
            return Poll::Ready(None);
        }
        let ev = self.evs[self.i].clone();
        self.i += 1;
        match ev {
            Ev::D(n) => {
                let v: Vec<u8> = (0..n).map(|k| content_byte(self.pos.wrapping_add(k))).collect();
                self.pos = self.pos.wrapping_add(n);
                Poll::Ready(Some(Ok(D::from(v))))
            }
            Ev::B(n) => {
                let v: Vec<u8> = (0..n).map(|k| !content_byte(self.pos.wrapping_add(k))).collect();
                self.pos = self.pos.wrapping_add(n);
                Poll::Ready(Some(Ok(D::from(v))))
            }
            Ev::R => {
                let n = self.end.saturating_sub(self.pos).min(1 << 16);
                let v: Vec<u8> = (0..n).map(|k| content_byte(self.pos + k)).collect();
                self.pos += n;
                Poll::Ready(Some(Ok(D::from(v))))
            }
            Ev::E => {
                // the entity's stream stays finished once it has failed (proviso of C20)
                self.i = self.evs.len();
                Poll::Ready(Some(Err("scripted entity error".into())))
            }
            Ev::N => {
                self.i = self.evs.len();
                Poll::Ready(None)
            }
            Ev::P => {
                cx.waker().wake_by_ref();
                Poll::Pending
            }
        }
    }
}

struct ScriptEntity<D> {
    _d: std::marker::PhantomData<D>,
    len: u64,
    etag: Option<HeaderValue>,
    lm: Option<SystemTime>,
    hdrs: Vec<(HeaderName, HeaderValue)>,
    scripts: Vec<Vec<Ev>>,
    ncalls: Arc<AtomicUsize>,
    calls: Arc<Mutex<Vec<Range<u64>>>>,
}

impl<D: WData> http_serve::Entity for ScriptEntity<D> {
    type Data = D;
    type Error = BoxError;
    fn len(&self) -> u64 {
        self.len
    }
    fn get_range(&self, range: Range<u64>) -> Pin<Box<dyn Stream<Item = Result<D, BoxError>> + Send + Sync>> {
        let k = self.ncalls.fetch_add(1, Ordering::SeqCst);
        self.calls.lock().unwrap().push(range.clone());
        let evs = self.scripts.get(k).cloned().unwrap_or_else(|| vec![Ev::R, Ev::N]);
        Box::pin(ScriptStream::<D> { evs, i: 0, pos: range.start, end: range.end, _d: std::marker::PhantomData })
    }
    fn add_headers(&self, h: &mut http::HeaderMap) {
        for (k, v) in &self.hdrs {
            h.append(k.clone(), v.clone());
        }
    }
    fn etag(&self) -> Option<HeaderValue> {
        self.etag.clone()
    }
    fn last_modified(&self) -> Option<SystemTime> {
        self.lm
    }
}

fn unhex(s: &str) -> Vec<u8> {
    (0..s.len() / 2).map(|i| u8::from_str_radix(&s[2 * i..2 * i + 2], 16).unwrap()).collect()
}
fn hex(b: &[u8]) -> String {
    b.iter().map(|x| format!("{:02x}", x)).collect()
}
fn parse_kv(s: &str) -> Vec<(String, Vec<u8>)> {
    s.split(',').filter(|x| !x.is_empty()).map(|kv| {
        let (k, v) = kv.split_once('=').unwrap();
        (k.to_string(), unhex(v))
    }).collect()
}
fn parse_script(s: &str) -> Vec<Ev> {
    s.split(',').filter(|x| !x.is_empty()).map(|e| {
        let (c, n) = e.split_at(1);
        match c {
            "D" => Ev::D(n.parse().unwrap()),
            "B" => Ev::B(n.parse().unwrap()),
            "E" => Ev::E,
            "N" => Ev::N,
            "P" => Ev::P,
            "R" => Ev::R,
            _ => panic!("bad event {}", e),
        }
    }).collect()
}

fn run_one(line: &str) -> String {
    if line.split('|').nth(9) == Some("rope") {
        run_one_with::<Rope>(line)
    } else {
        run_one_with::<Bytes>(line)
    }
}

fn run_one_with<D: WData>(line: &str) -> String {
    let f: Vec<&str> = line.split('|').collect();
    let id = f[0];
    let method = http::Method::from_bytes(f[1].as_bytes()).unwrap();
    let mut req = http::Request::builder().method(method).uri("/");
    for (k, v) in parse_kv(f[2]) {
        req = req.header(HeaderName::from_bytes(k.as_bytes()).unwrap(), HeaderValue::from_bytes(&v).unwrap());
    }
    let req = req.body(()).unwrap();
    let len: u64 = f[3].parse().unwrap();
    let etag = if f[4] == "-" { None } else { Some(HeaderValue::from_bytes(&unhex(f[4])).unwrap()) };
    let lm = if f[5] == "-" {
        None
    } else if let Some(rel) = f[5].strip_prefix("now+") {
        Some(SystemTime::now() + Duration::from_secs(rel.parse().unwrap()))
    } else {
        let (s, n) = f[5].split_once('.').unwrap();
        if let Some(neg) = s.strip_prefix('-') {
            Some(SystemTime::UNIX_EPOCH - Duration::new(neg.parse().unwrap(), 0) + Duration::new(0, n.parse().unwrap()))
        } else {
            Some(SystemTime::UNIX_EPOCH + Duration::new(s.parse().unwrap(), n.parse().unwrap()))
        }
    };
    let hdrs = parse_kv(f[6]).into_iter().map(|(k, v)| (HeaderName::from_bytes(k.as_bytes()).unwrap(), HeaderValue::from_bytes(&v).unwrap())).collect();
    let scripts: Vec<Vec<Ev>> = if f[7].is_empty() { vec![] } else { f[7].split('/').map(parse_script).collect() };
    let extra: usize = f[8].parse().unwrap();
    let calls = Arc::new(Mutex::new(Vec::new()));
    let ent = ScriptEntity::<D> { _d: std::marker::PhantomData, len, etag, lm, hdrs, scripts, ncalls: Arc::new(AtomicUsize::new(0)), calls: calls.clone() };

    let out = Arc::new(Mutex::new(String::new()));
    let out2 = out.clone();
    let r = std::panic::catch_unwind(std::panic::AssertUnwindSafe(move || {
        let resp = http_serve::serve(ent, &req);
        let mut s = format!("{}|{}|", id, resp.status().as_u16());
        let hs: Vec<String> = resp.headers().iter().map(|(k, v)| format!("{}={}", k.as_str(), hex(v.as_bytes()))).collect();
        s.push_str(&hs.join(","));
        s.push('|');
        *out2.lock().unwrap() = s.clone();
        let mut body = resp.into_body();
        let waker = futures_util::task::noop_waker();
        let mut cx = Context::from_waker(&waker);
        let mut terminal_seen = 0usize;
        let mut steps = 0usize;
        let mut evs: Vec<String> = Vec::new();
        loop {
            let h = body.size_hint();
            let eos = body.is_end_stream();
            let pre = format!("{}:{}:{}", h.lower(), h.upper().map(|u| u.to_string()).unwrap_or("-".into()), if eos { 1 } else { 0 });
            let r = Pin::new(&mut body).poll_frame(&mut cx);
            let ev = match r {
                Poll::Ready(Some(Ok(fr))) => {
                    let mut d = match fr.into_data() { Ok(d) => d, Err(_) => panic!("non-data frame") };
                    let n = d.remaining();
                    format!("D{}", hex(&d.copy_to_bytes(n)))
                }
                Poll::Ready(Some(Err(e))) => {
                    terminal_seen += 1;
                    format!("E{}", hex(e.to_string().as_bytes()))
                }
                Poll::Ready(None) => {
                    terminal_seen += 1;
                    "N".to_string()
                }
                Poll::Pending => "P".to_string(),
            };
            evs.push(format!("{}>{}", pre, ev));
            *out2.lock().unwrap() = format!("{}{}", s, evs.join(","));
            steps += 1;
            if terminal_seen > extra || steps > 400 {
                break;
            }
        }
        s.push_str(&evs.join(","));
        *out2.lock().unwrap() = s;
    }));
    let mut s = out.lock().unwrap().clone();
    if s.is_empty() {
        s = format!("{}|0||", id);
    }
    let c: Vec<String> = calls.lock().unwrap().iter().map(|r| format!("{}-{}", r.start, r.end)).collect();
    s.push('|');
    s.push_str(&c.join(","));
    s.push('|');
    match r {
        Ok(()) => s.push('-'),
        Err(p) => {
            let msg = p.downcast_ref::<String>().cloned().or_else(|| p.downcast_ref::<&str>().map(|x| x.to_string())).unwrap_or("panic".into());
            s.push_str(&hex(msg.as_bytes()));
        }
    }
    s
}

#[test]
fn verif_serve_witness() {
    let inp = match std::env::var("VERIF_SCENARIOS") {
        Ok(p) => p,
        Err(_) => return,
    };
    let outp = std::env::var("VERIF_OBS").unwrap();
    std::panic::set_hook(Box::new(|_| {}));
    let text = std::fs::read_to_string(inp).unwrap();
    let mut out = String::new();
    for line in text.lines() {
        if line.trim().is_empty() {
            continue;
        }
        // watchdog: a scenario in which `serve` or one poll of the body never returns is reported as HANG
        let (tx, rx) = std::sync::mpsc::channel();
        let l2 = line.to_string();
        std::thread::spawn(move || { let _ = tx.send(run_one(&l2)); });
        match rx.recv_timeout(std::time::Duration::from_secs(20)) {
            Ok(s) => out.push_str(&s),
            Err(_) => {
                // observation with the panic field carrying the verdict (no response, no frames)
                let msg: String = "HANG: the scenario did not finish within 20 s (endless loop in serve or in one poll of the body)".bytes().map(|b| format!("{:02x}", b)).collect();
                out.push_str(&format!("{}|0||||{}", line.split('|').next().unwrap_or("?"), msg));
            }
        }
        out.push('\n');
    }
    std::fs::write(outp, out).unwrap();
}
