// ---- specs/range_spec.rs: RFC 7233 byte-range resolution, written from the statement of C03 (not from the code) ----
pub mod range_spec {
    use vstd::prelude::*;
    use crate::strs::*;
    use std::ops::Range;

    /// One element of the byte-range-set: `-n`, `first-`, `first-last`.
    pub enum Form { Suffix(u64), From(u64), Closed(u64, u64) }

    /// `first-byte-pos`, `last-byte-pos`, `suffix-length` are `1*DIGIT` (RFC 7233 2.1) that fit in 64 bits.  ASSUMED about
    /// std: `u64::from_str` accepts exactly an optional `+` followed by `1*DIGIT` within range (its documented grammar),
    /// so a position is what `from_str` accepts minus the values with a sign.
    pub open spec fn sp_pos(s: Str) -> Option<u64> { if sp_starts_with(s, "+"@) { None } else { sp_u64(s) } }

    /// Lexical shape of one list element over the assumed `str` primitives: OWS trimmed; no `-` or an unparseable
    /// number means the whole header is outside the grammar.
    pub open spec fn lex(e: Str) -> Option<Form> {
        let r = sp_trim_start(e);
        match sp_find(r, '-') {
            None => None,
            Some(h) => if h == 0 {
                match sp_pos(sp_slice(r, 1, sp_len(r))) { Some(n) => Some(Form::Suffix(n)), None => None }
            } else {
                match sp_pos(sp_slice(r, 0, h)) {
                    None => None,
                    Some(f) => if sp_len(r) > h + 1 {
                        match sp_pos(sp_slice(r, (h + 1) as usize, sp_len(r))) { None => None, Some(l) => Some(Form::Closed(f, l)) }
                    } else { Some(Form::From(f)) }
                }
            }
        }
    }

    /// C03: `first-last` selects first..=min(last, L-1), `first-` selects first..=L-1, `-n` selects the final
    /// min(n, L) bytes; specs that select nothing (first >= L, n = 0, L = 0, last < first) are dropped.
    /// The result is the half-open interval (start, end).
    pub open spec fn resolve(f: Form, l: u64) -> Option<(int, int)> {
        match f {
            Form::Suffix(n) => { let m = if n <= l { n } else { l }; if m == 0 { None } else { Some((l - m, l as int)) } }
            Form::From(a) => if a < l { Some((a as int, l as int)) } else { None },
            Form::Closed(a, b) => if a < l && a <= b { Some((a as int, (if b <= l - 1 { b } else { (l - 1) as u64 }) + 1)) } else { None },
        }
    }

    pub open spec fn all_lex(es: Seq<Str>, k: int) -> bool { forall|j: int| 0 <= j < k ==> lex(#[trigger] es[j]).is_some() }

    /// The satisfiable ranges of the first k elements, in request order.
    pub open spec fn sel(es: Seq<Str>, k: int, l: u64) -> Seq<(int, int)>
        decreases k
    {
        if k <= 0 { Seq::empty() } else {
            let prev = sel(es, k - 1, l);
            match lex(es[k - 1]) { Some(f) => match resolve(f, l) { Some(x) => prev.push(x), None => prev }, None => prev }
        }
    }

    pub open spec fn view_ranges(v: Seq<Range<u64>>) -> Seq<(int, int)> { Seq::new(v.len(), |i: int| (v[i].start as int, v[i].end as int)) }

    /// What `range::parse` must return for a Range header value (None = header absent or not visible ASCII).
    pub open spec fn parse_spec(range: Option<Str>, len: u64, none: bool, unsat: bool, sat: Option<Seq<Range<u64>>>) -> bool {
        match range {
            None => none,
            Some(h) => match sp_strip_prefix(h, "bytes="@) {
                None => none,
                Some(bytes) => {
                    let es = sp_split(bytes, ',');
                    if !all_lex(es, es.len() as int) { none }
                    else if sel(es, es.len() as int, len).len() == 0 { unsat }
                    else { sat matches Some(v) && view_ranges(v) =~= sel(es, es.len() as int, len) }
                }
            }
        }
    }

    /// Every selected range is non-empty and inside the entity.
    pub proof fn lemma_sel_wf(es: Seq<Str>, k: int, l: u64)
        ensures forall|j: int| 0 <= j < sel(es, k, l).len() ==> 0 <= (#[trigger] sel(es, k, l)[j]).0 < sel(es, k, l)[j].1 <= l,
        decreases k
    {
        if k > 0 {
            lemma_sel_wf(es, k - 1, l);
            let prev = sel(es, k - 1, l);
            assert forall|j: int| 0 <= j < sel(es, k, l).len() implies 0 <= (#[trigger] sel(es, k, l)[j]).0 < sel(es, k, l)[j].1 <= l by {
                if j < prev.len() { assert(sel(es, k, l)[j] == prev[j]); }
            }
        }
    }
}
