// ---- specs/range_spec.rs: RFC 7233 byte-range resolution over the BYTES of the header value, written from the
// statement of C03 and the ABNF (RFC 7233 2.1, list rule of RFC 7230 7), not from the code ----
//   byte-ranges-specifier = bytes-unit "=" byte-range-set          bytes-unit = "bytes"
//   byte-range-set  = 1#( byte-range-spec / suffix-byte-range-spec )     1#element => element *( OWS "," OWS element )
//   byte-range-spec = first-byte-pos "-" [ last-byte-pos ]               suffix-byte-range-spec = "-" suffix-length
//   first-byte-pos = last-byte-pos = suffix-length = 1*DIGIT  (any number of digits: values are natural numbers here)
pub mod range_spec {
    use vstd::prelude::*;
    use crate::strs::*;
    use std::ops::Range;

    /// One element of the byte-range-set: `-n`, `first-`, `first-last`, with unbounded numbers.
    pub enum Form { Suffix(nat), From(nat), Closed(nat, nat) }

    /// An element with the OWS around it removed: `a "-" b` where a and b contain no `-` (digits do not), so the cut is at
    /// the first `-`.
    pub open spec fn elem_form(t: Seq<u8>) -> Option<Form> {
        match first_at(t, 0, 0x2du8) {
            None => None,
            Some(h) => {
                let a = t.subrange(0, h);
                let b = t.subrange(h + 1, t.len() as int);
                if a.len() == 0 { if all_digits(b) { Some(Form::Suffix(dec(b))) } else { None } }
                else if !all_digits(a) { None }
                else if b.len() == 0 { Some(Form::From(dec(a))) }
                else if all_digits(b) { Some(Form::Closed(dec(a), dec(b))) } else { None }
            }
        }
    }
    /// A list element as it stands between two commas: OWS is allowed on both sides of the comma.
    pub open spec fn lex(e: Str) -> Option<Form> { elem_form(trim_b(e.b(), is_ows())) }

    /// C03: `first-last` selects first..=min(last, L-1), `first-` selects first..=L-1, `-n` selects the final
    /// min(n, L) bytes; specs that select nothing (first >= L, n = 0, L = 0, last < first) are dropped.
    /// The result is the half-open interval (start, end).
    pub open spec fn resolve(f: Form, l: u64) -> Option<(int, int)> {
        match f {
            Form::Suffix(n) => { let m: int = if n <= l { n as int } else { l as int }; if m == 0 { None } else { Some((l - m, l as int)) } }
            Form::From(a) => if a < l { Some((a as int, l as int)) } else { None },
            Form::Closed(a, b) => if a < l && a <= b { Some((a as int, (if b <= l - 1 { b as int } else { l - 1 }) + 1)) } else { None },
        }
    }

    pub open spec fn all_lex(es: Seq<Str>, k: int) -> bool { forall|j: int| 0 <= j < k ==> lex(#[trigger] es[j]).is_some() }

    /// The satisfiable ranges of the first k elements, in request order.
    pub open spec fn sel(es: Seq<Str>, k: int, l: u64) -> Seq<(int, int)>
        decreases k
    {
        if k <= 0 { Seq::empty() } else {
            let prev = sel(es, k - 1, l);
            match lex(es[k - 1]) { Some(f) => match resolve(f, l) { Some(x) => prev.push(x), None => prev }, None => prev }
        }
    }

    pub open spec fn view_ranges(v: Seq<Range<u64>>) -> Seq<(int, int)> { Seq::new(v.len(), |i: int| (v[i].start as int, v[i].end as int)) }

    /// The strict list grammar has no OWS before the first element or after the last one (`bytes= 0-1`, `bytes=0-1 `);
    /// a tolerant recipient may still accept such a value, so both answers are allowed there.
    pub open spec fn strict_edges(es: Seq<Str>) -> bool {
        es.len() >= 1 && lead(es[0].b(), is_ows(), 0) == 0 && trail(es.last().b(), is_ows(), es.last().b().len() as int, 0) == es.last().b().len()
    }

    /// What `range::parse` must return for a Range header value (None = header absent or not visible ASCII).
    pub open spec fn parse_spec(range: Option<Str>, len: u64, none: bool, unsat: bool, sat: Option<Seq<Range<u64>>>) -> bool {
        match range {
            None => none,
            Some(h) => {
                let unit = h.b().subrange(0, if h.b().len() < 6 { h.b().len() as int } else { 6 });
                if !eq_nocase_b(unit, lit("bytes="@)) { none }                                        // another unit: ignored
                else {
                    let es = sp_split(mk(h.b().subrange(6, h.b().len() as int)), ',');
                    let exact = if !all_lex(es, es.len() as int) { none }                            // outside the grammar: ignored
                        else if sel(es, es.len() as int, len).len() == 0 { unsat }
                        else { sat matches Some(v) && view_ranges(v) =~= sel(es, es.len() as int, len) };
                    // range units are case-insensitive (ABNF literal), but a recipient that only knows `bytes` may ignore `Bytes=`;
                    // likewise for OWS at the two ends of the set
                    exact || (none && (!(unit =~= lit("bytes="@)) || !strict_edges(es)))
                }
            }
        }
    }

    /// Every selected range is non-empty and inside the entity.
    pub proof fn lemma_sel_wf(es: Seq<Str>, k: int, l: u64)
        ensures forall|j: int| 0 <= j < sel(es, k, l).len() ==> 0 <= (#[trigger] sel(es, k, l)[j]).0 < sel(es, k, l)[j].1 <= l,
        decreases k
    {
        if k > 0 {
            lemma_sel_wf(es, k - 1, l);
            let prev = sel(es, k - 1, l);
            assert forall|j: int| 0 <= j < sel(es, k, l).len() implies 0 <= (#[trigger] sel(es, k, l)[j]).0 < sel(es, k, l)[j].1 <= l by {
                if j < prev.len() { assert(sel(es, k, l)[j] == prev[j]); }
            }
        }
    }
}
