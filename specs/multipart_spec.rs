// ---- specs/multipart_spec.rs: length of a multipart/byteranges body (shared by units `streams` and `glue`) ----
/// Bytes owed from the start of part `i`: headers and ranges of parts i.. plus the 9-byte trailer.
pub open spec fn rest(ph: Seq<Vec<u8>>, rg: Seq<Range<u64>>, i: int) -> int
    decreases rg.len() - i
{
    if i >= rg.len() || i < 0 { 9 } else { ph[i]@.len() + (rg[i].end - rg[i].start) + rest(ph, rg, i + 1) }
}

pub proof fn lemma_rest_nonneg(ph: Seq<Vec<u8>>, rg: Seq<Range<u64>>, i: int)
    requires forall|j: int| 0 <= j < rg.len() ==> (#[trigger] rg[j]).start <= rg[j].end,
    ensures rest(ph, rg, i) >= 9,
    decreases rg.len() - i
{
    if i >= rg.len() || i < 0 {} else { lemma_rest_nonneg(ph, rg, i + 1); }
}

pub proof fn lemma_rest_frame(ph1: Seq<Vec<u8>>, ph2: Seq<Vec<u8>>, rg: Seq<Range<u64>>, i: int)
    requires ph1.len() == ph2.len(), ph1.len() == rg.len(), forall|j: int| i <= j < ph1.len() ==> ph1[j] == ph2[j],
    ensures rest(ph1, rg, i) == rest(ph2, rg, i),
    decreases rg.len() - i
{
    if i >= rg.len() || i < 0 {} else { lemma_rest_frame(ph1, ph2, rg, i + 1); }
}

