    // ---- specs/etag_contracts.rs: contract of List::next (included inside `mod etag`, after `struct List`) ----
    /// `List::next` performs exactly one `list_step` on the remaining bytes - under either reading of OWS after the last tag.
    pub open spec fn next_post<'a>(old: List<'a>, r: Option<&'a [u8]>, fin: List<'a>) -> bool { next_post_g(old, r, fin, true) || next_post_g(old, r, fin, false) }
    pub open spec fn next_post_g<'a>(old: List<'a>, r: Option<&'a [u8]>, fin: List<'a>, tol: bool) -> bool {
        match list_step_g(old.remaining@, tol) {
            Step::End => r.is_none() && fin.remaining@ == old.remaining@ && fin.corrupt == old.corrupt,
            Step::Corrupt => r.is_none() && fin.corrupt && fin.remaining@ == old.remaining@,
            Step::Item(t, rest) => (r matches Some(x) && x@ == t) && fin.remaining@ == rest && fin.corrupt == old.corrupt,
        }
    }
