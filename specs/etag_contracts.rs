    // ---- specs/etag_contracts.rs: contract of List::next (included inside `mod etag`, after `struct List`) ----
    /// `List::next` performs exactly one `list_step` on the remaining bytes.
    pub open spec fn next_post<'a>(old: List<'a>, r: Option<&'a [u8]>, fin: List<'a>) -> bool {
        match list_step(old.remaining@) {
            Step::End => r.is_none() && fin.remaining@ == old.remaining@ && fin.corrupt == old.corrupt,
            Step::Corrupt => r.is_none() && fin.corrupt && fin.remaining@ == old.remaining@,
            Step::Item(t, rest) => (r matches Some(x) && x@ == t) && fin.remaining@ == rest && fin.corrupt == old.corrupt,
        }
    }
