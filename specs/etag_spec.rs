// ---- specs/etag_spec.rs: RFC 7232 entity-tag comparison and `1#entity-tag` list semantics, written from C04/C05 ----
pub mod etag_spec {
    use vstd::prelude::*;

    pub open spec fn is_weak(a: Seq<u8>) -> bool { a.len() >= 2 && a[0] == 0x57u8 && a[1] == 0x2fu8 }      // "W/"
    pub open spec fn opaque_part(a: Seq<u8>) -> Seq<u8> { if is_weak(a) { a.subrange(2, a.len() as int) } else { a } }
    /// RFC 7232 2.3.2 weak comparison: equal opaque-tags, weakness ignored.
    pub open spec fn weak_eq_s(a: Seq<u8>, b: Seq<u8>) -> bool { opaque_part(a) =~= opaque_part(b) }
    /// RFC 7232 2.3.2 strong comparison: both not weak and byte-identical.
    pub open spec fn strong_eq_s(a: Seq<u8>, b: Seq<u8>) -> bool { a =~= b && !is_weak(a) }

    pub open spec fn starts_with_s(a: Seq<u8>, p: Seq<u8>) -> bool { a.len() >= p.len() && a.subrange(0, p.len() as int) =~= p }
    /// First index >= from holding byte c.
    pub open spec fn first_at(s: Seq<u8>, from: int, c: u8) -> Option<int>
        decreases s.len() - from
    {
        if from < 0 || from >= s.len() { None } else if s[from] == c { Some(from) } else { first_at(s, from + 1, c) }
    }
    pub open spec fn skip_ows(s: Seq<u8>) -> Seq<u8>
        decreases s.len()
    {
        if s.len() > 0 && (s[0] == 0x20u8 || s[0] == 0x09u8) { skip_ows(s.subrange(1, s.len() as int)) } else { s }
    }
    pub enum Step { End, Corrupt, Item(Seq<u8>, Seq<u8>) }
    /// One element of `1#entity-tag` (RFC 7230 7: `element *( OWS "," OWS element )`): an entity-tag is `[W/]"` opaque `"`
    /// where the opaque part cannot contain `"` (so commas and spaces inside a tag belong to the tag); after it OWS, a `,`
    /// and OWS lead to the next element.  OWS after the LAST tag is not sender grammar (the usual HTTP parsers strip it): a
    /// recipient may tolerate it (`tol`: the list ends there) or not (the OWS stays and the next step is corrupt) - both are
    /// allowed (`next_post`), and the properties are only stated for lists on which the two readings agree (`wf_list`).
    /// Anything else after a tag is left in place and makes the next step corrupt, except that a tag may follow a tag directly.
    pub open spec fn list_step(rem: Seq<u8>) -> Step { list_step_g(rem, true) }
    pub open spec fn list_step_g(rem: Seq<u8>, tol: bool) -> Step {
        if rem.len() == 0 { Step::End } else {
            let start: int = if rem.len() >= 3 && rem[0] == 0x57u8 && rem[1] == 0x2fu8 && rem[2] == 0x22u8 { 3 } else if rem[0] == 0x22u8 { 1 } else { -1 };
            if start < 0 { Step::Corrupt } else {
                match first_at(rem, start, 0x22u8) {
                    None => Step::Corrupt,
                    Some(q) => {
                        let rest0 = rem.subrange(q + 1, rem.len() as int);
                        let r1 = skip_ows(rest0);
                        let rest = if r1.len() > 0 && r1[0] == 0x2cu8 { skip_ows(r1.subrange(1, r1.len() as int)) } else if r1.len() == 0 && tol { r1 } else { rest0 };
                        Step::Item(rem.subrange(0, q + 1), rest)
                    }
                }
            }
        }
    }
    pub proof fn lemma_first_at_bounds(s: Seq<u8>, from: int, c: u8)
        ensures first_at(s, from, c) matches Some(q) ==> from <= q < s.len() && s[q] == c
        decreases s.len() - from
    { if from >= 0 && from < s.len() && s[from] != c { lemma_first_at_bounds(s, from + 1, c); } }
    pub proof fn lemma_skip_ows_len(s: Seq<u8>)
        ensures skip_ows(s).len() <= s.len()
        decreases s.len()
    { if s.len() > 0 && (s[0] == 0x20u8 || s[0] == 0x09u8) { lemma_skip_ows_len(s.subrange(1, s.len() as int)); } }
    pub proof fn lemma_step_shrinks(rem: Seq<u8>)
        ensures list_step(rem) matches Step::Item(t, rest) ==> rest.len() < rem.len() && t.len() > 0,
                list_step_g(rem, false) matches Step::Item(t, rest) ==> rest.len() < rem.len() && t.len() > 0,
    {
        if rem.len() > 0 {
            let start: int = if rem.len() >= 3 && rem[0] == 0x57u8 && rem[1] == 0x2fu8 && rem[2] == 0x22u8 { 3 } else if rem[0] == 0x22u8 { 1 } else { -1 };
            if start >= 0 {
                lemma_first_at_bounds(rem, start, 0x22u8);
                if let Some(q) = first_at(rem, start, 0x22u8) {
                    let rest0 = rem.subrange(q + 1, rem.len() as int);
                    lemma_skip_ows_len(rest0);
                    let r1 = skip_ows(rest0);
                    if r1.len() > 0 { lemma_skip_ows_len(r1.subrange(1, r1.len() as int)); }
                }
            }
        }
    }
    /// Does any element of the list (up to the first corrupt position) satisfy the comparison with `etag`?
    /// Returns (matched, corrupt).
    pub open spec fn scan(rem: Seq<u8>, etag: Seq<u8>, weak: bool) -> (bool, bool)
        decreases rem.len()
    {
        match list_step(rem) {
            Step::End => (false, false),
            Step::Corrupt => (false, true),
            Step::Item(t, rest) => if rest.len() < rem.len() {
                let (m, c) = scan(rest, etag, weak);
                ((if weak { weak_eq_s(t, etag) } else { strong_eq_s(t, etag) }) || m, c)
            } else { (false, true) }
        }
    }
    /// A well-formed list (C04: "with well-formed validators"): it scans to its end without a corrupt step, and no step
    /// depends on whether OWS after the last tag is tolerated.
    pub open spec fn wf_list(rem: Seq<u8>) -> bool
        decreases rem.len()
    {
        match list_step(rem) {
            Step::End => true,
            Step::Corrupt => false,
            Step::Item(t, rest) => rest.len() < rem.len() && list_step_g(rem, false) == list_step(rem) && wf_list(rest),
        }
    }
    pub proof fn lemma_wf_not_corrupt(rem: Seq<u8>, etag: Seq<u8>, weak: bool)
        requires wf_list(rem)
        ensures !scan(rem, etag, weak).1
        decreases rem.len()
    { if let Step::Item(t, rest) = list_step(rem) { lemma_wf_not_corrupt(rest, etag, weak); } }
    pub open spec fn is_star(m: Seq<u8>) -> bool { m.len() == 1 && m[0] == 0x2au8 }

    /// If-Match (C04): Ok(passes) or Err (unparseable list -> 400).
    pub open spec fn any_match_s(etag: Option<Seq<u8>>, m: Option<Seq<u8>>) -> Result<bool, ()> {
        match m {
            None => Ok(true),
            Some(m) => if is_star(m) { Ok(true) } else { match etag {
                None => Ok(false),
                Some(e) => { let (hit, corrupt) = scan(m, e, false); if corrupt { Err(()) } else { Ok(hit) } }
            } }
        }
    }
    /// If-None-Match (C04): Some(true) = no tag matches, Some(false) = a tag (or `*`) matches, None = header absent or ignored.
    pub open spec fn none_match_s(etag: Option<Seq<u8>>, m: Option<Seq<u8>>) -> Option<bool> {
        match m {
            None => None,
            Some(m) => if is_star(m) { Some(false) } else { match etag {
                None => Some(true),
                Some(e) => { let (hit, corrupt) = scan(m, e, true); if corrupt { None } else { Some(!hit) } }
            } }
        }
    }
}
