#!/bin/sh
# Offline setup: only checks that the pre-installed tools are present. Everything else is rebuilt by ./check.
set -e
cd "$(dirname "$0")"
verus --version >/dev/null
python3 -c "import json" 
mkdir -p build evidence replays
echo "setup ok"
