// Unit `glue`: src/serving.rs serve / serve_inner / prepare_multipart against the decision oracle `serve_post`
// transcribed from the statements of C01-C06, C13-C15.  Callee contracts: range::parse (unit `range`),
// parse_modified_hdrs (unit `cond`), etag::strong_eq (unit `etag`), ExactLenStream::new / MultipartStream::new
// (unit `streams`).  Bodies are spliced in from /repo by lib/extract.py.
#![feature(allocator_api)]
use vstd::prelude::*;
use std::ops::Range;
//@include prelude/glue.rs
verus! {

//@include prelude/core.rs
//@include prelude/str.rs
//@include prelude/http.rs
//@include prelude/glue2.rs
//@include specs/range_spec.rs
//@include specs/etag_spec.rs
//@include prelude/slice.rs
//@include specs/multipart_spec.rs
use stub::{SystemTime, fmt_http_date};
use http::{Method, StatusCode, Response, HeaderMap, HeaderName, HV, RespView};
use http::header::{self, HeaderValue};
use ent::*;
use sl::*;
use body::{Body, BodyStream};
broadcast use {http::lemma_without_push, fmtw::vec_len_bound, fmtw::vec_ranges_len_bound, hm::lemma_hmap_push, hm::lemma_hmap_empty};

//@fn src/lib.rs :: fn as_u64 props=C01 rules=R24
fn as_u64(len: usize) -> (r: u64)
    ensures r == len,
//@body
//@end

// ---- callee contracts (each discharged on the real body in the named unit) ----
pub mod etag {
    use vstd::prelude::*;
    /// unit `etag`: strong comparison (RFC 7232 2.3.2).
    #[verifier::external_body]
    pub fn strong_eq(a: &[u8], b: &[u8]) -> (r: bool) ensures r == crate::etag_spec::strong_eq_s(a@, b@) { unimplemented!() }
}
pub mod range {
    use vstd::prelude::*;
    use std::ops::Range;
    use crate::range_spec::*;
    //@item src/range.rs :: enum ResolvedRanges rules=R16
    pub open spec fn hv_str(range: Option<&crate::http::HeaderValue>) -> Option<crate::strs::Str> {
        match range { Some(v) => crate::http::sp_to_str(v.bytes@), None => None }
    }
    pub open spec fn parse_post(range: Option<&crate::http::HeaderValue>, len: u64, res: ResolvedRanges) -> bool {
        parse_spec(hv_str(range), len, res is None, res is NotSatisfiable, match res { ResolvedRanges::Satisfiable(v) => Some(v@), _ => None })
    }
    pub open spec fn wf_ranges(v: Seq<Range<u64>>, len: u64) -> bool { v.len() >= 1 && forall|j: int| 0 <= j < v.len() ==> (#[trigger] v[j]).start < v[j].end && v[j].end <= len }
    /// View of a result: (0 = None, 1 = NotSatisfiable, 2 = Satisfiable) and the ranges.
    pub open spec fn rv(r: ResolvedRanges) -> (int, Seq<Range<u64>>) {
        match r { ResolvedRanges::None => (0, Seq::empty()), ResolvedRanges::NotSatisfiable => (1, Seq::empty()), ResolvedRanges::Satisfiable(v) => (2, v@) }
    }
    /// `parse` is a function of its arguments (assumed: a pure, terminating Rust function - termination is proved in
    /// unit `range`); `rr_view` names its result, whose RFC 7233 meaning is `parse_post` (proved in unit `range`).
    pub uninterp spec fn rr_view(range: Option<&crate::http::HeaderValue>, len: u64) -> (int, Seq<Range<u64>>);
    /// unit `range`: `parse` (#rfc7233_resolution) and `lemma_parse_ranges_wf`.
    #[verifier::external_body]
    pub fn parse(range: Option<&crate::http::HeaderValue>, len: u64) -> (r: ResolvedRanges)
        ensures parse_post(range, len, r), rv(r) == rr_view(range, len),
            r matches ResolvedRanges::Satisfiable(v) ==> wf_ranges(v@, len), range.is_none() ==> r is None
    { unimplemented!() }
}

/// unit `cond`: what parse_modified_hdrs returns (its RFC 7232 meaning is proved there).
pub uninterp spec fn pmh(etag: Option<HeaderValue>, req: Map<HeaderName, HeaderValue>, lm: Option<SystemTime>) -> Result<(bool, bool), &'static str>;
#[verifier::external_body]
fn parse_modified_hdrs(etag: &Option<HeaderValue>, req_hdrs: &HeaderMap, last_modified: Option<SystemTime>) -> (r: Result<(bool, bool), &'static str>)
    ensures r == pmh(*etag, req_hdrs.m@, last_modified)
{ unimplemented!() }

/// unit `streams`: MultipartStream::new (#new_wf needs exactly this precondition).
#[verifier::reject_recursive_types(D)]
#[verifier::reject_recursive_types(E)]
pub struct MultipartStream<D, E> { pub entity: EntityRef<D, E>, pub part_headers: Vec<Vec<u8>>, pub ranges: Vec<Range<u64>>, pub len: u64 }
impl<D, E> MultipartStream<D, E> {
    pub fn new(entity: Box<EntityRef<D, E>>, part_headers: Vec<Vec<u8>>, ranges: Vec<Range<u64>>, len: u64) -> (r: Self)
        requires
            part_headers@.len() == ranges@.len(), ranges@.len() <= 0x07ff_ffff_ffff_ffff,
            forall|j: int| 0 <= j < ranges@.len() ==> (#[trigger] ranges@[j]).start <= ranges@[j].end,
            len as int == rest(part_headers@, ranges@, 0),
        ensures r.entity == *entity, r.part_headers == part_headers, r.ranges == ranges, r.len == len,
    { MultipartStream { entity: *entity, part_headers, ranges, len } }
}

//@item src/serving.rs :: const MAX_DECIMAL_U64_BYTES
//@item src/serving.rs :: const PART_TRAILER rules=R25 vis=none
//@item src/serving.rs :: struct MultipartLenOverflowError
#[verifier::reject_recursive_types(D)]
#[verifier::reject_recursive_types(E)]
//@item src/serving.rs :: enum ServeInner

// ======================= oracle: written from C01-C06, C13-C15 =======================
/// C14: the served Last-Modified never exceeds the Date and is the modification time unless that lies in the future;
/// times before the epoch (not representable as an HTTP date) are served as the epoch.
spec fn served_last_modified(m: SystemTime) -> SystemTime {
    let c = stub::st_min_s(m, stub::clock_now());
    if c.secs < 0 { SystemTime { secs: 0, nanos: 0 } } else { c }
}
spec fn common_hdrs<D, E>(ent: &EntityRef<D, E>) -> Seq<(HeaderName, HV)> {
    let a = seq![(HeaderName::ACCEPT_RANGES, HV::Static("bytes"@))];
    let b = match e_lm(ent) { Some(m) => a.push((HeaderName::DATE, HV::Date(stub::clock_now()))).push((HeaderName::LAST_MODIFIED, HV::Date(served_last_modified(m)))), None => a };
    match e_etag(ent) { Some(e) => b.push((HeaderName::ETAG, e.v@)), None => b }
}
spec fn is_tag_form(b: Seq<u8>) -> bool { (b.len() >= 1 && b[0] == 0x22u8) || (b.len() >= 3 && b[0] == 0x57u8 && b[1] == 0x2fu8 && b[2] == 0x22u8) }
/// If-Range gate (C05): the Range header that is actually honoured.
spec fn effective_range<D, E>(ent: &EntityRef<D, E>, req: Map<HeaderName, HeaderValue>) -> Option<&HeaderValue> {
    if !req.dom().contains(HeaderName::RANGE) { None }
    else if !req.dom().contains(HeaderName::IF_RANGE) { Some(&req[HeaderName::RANGE]) }
    else if !is_tag_form(req[HeaderName::IF_RANGE].bytes@) { None }
    else { match e_etag(ent) { Some(e) => if etag_spec::strong_eq_s(req[HeaderName::IF_RANGE].bytes@, e.bytes@) { Some(&req[HeaderName::RANGE]) } else { None }, None => None } }
}
spec fn simple<D, E>(out: ServeInner<D, E>, status: int, hdrs: Seq<(HeaderName, HV)>, entity_hdrs: bool) -> bool {
    out matches ServeInner::Simple(r) && r.v@.status == status && r.v@.hdrs =~= hdrs && r.extra.entity_hdrs@ == entity_hdrs
}
spec fn body_once<D, E>(out: ServeInner<D, E>, text: Option<Seq<char>>) -> bool {
    out matches ServeInner::Simple(r) && r.body.0 == BodyStream::<D, E>::Once(Ghost(text))
}
spec fn body_exact<D, E>(out: ServeInner<D, E>, ent: &EntityRef<D, E>, a: u64, b: u64) -> bool {
    out matches ServeInner::Simple(r) && (r.body.0 matches BodyStream::ExactLen(s) && s.remaining == b - a && s.stream == e_stream(ent, a, b))
}
/// Σ (80 + |range_i|) over the first k ranges (C03: the RFC's estimate of a multipart body).
spec fn est_sum(v: Seq<Range<u64>>, k: int) -> int decreases k { if k <= 0 { 0 } else { est_sum(v, k - 1) + 80 + (v[k - 1].end - v[k - 1].start) } }
spec fn ranges_sum(v: Seq<Range<u64>>, k: int) -> int decreases k { if k <= 0 { 0 } else { ranges_sum(v, k - 1) + (v[k - 1].end - v[k - 1].start) } }
proof fn lemma_est_vs_ranges(v: Seq<Range<u64>>, k: int)
    requires 0 <= k <= v.len(), forall|j: int| 0 <= j < v.len() ==> (#[trigger] v[j]).start <= v[j].end
    ensures est_sum(v, k) == ranges_sum(v, k) + 80 * k, ranges_sum(v, k) >= 0
    decreases k
{ if k > 0 { lemma_est_vs_ranges(v, k - 1); } }

/// One part header of a multipart body (C06): delimiter line, Content-Range line, entity headers, blank line.
spec fn part_header(r: Range<u64>, len: u64, ent_hdrs: Seq<u8>) -> Seq<u8> {
    fmtw::fmt3("\r\n--B\r\nContent-Range: bytes {}-{}/{}\r\n"@, r.start, (r.end - 1) as u64, len) + ent_hdrs + seq![0x0du8, 0x0au8]
}
/// Exact length of the first k parts of the multipart body: part header + range bytes each (C06, C01).
spec fn total_len(v: Seq<Range<u64>>, len: u64, eh: Seq<u8>, k: int) -> int decreases k {
    if k <= 0 { 0 } else { total_len(v, len, eh, k - 1) + part_header(v[k - 1], len, eh).len() + (v[k - 1].end - v[k - 1].start) }
}
proof fn lemma_total_len_mono(v: Seq<Range<u64>>, len: u64, eh: Seq<u8>, i: int, k: int)
    requires 0 <= i <= k <= v.len(), forall|j: int| 0 <= j < v.len() ==> (#[trigger] v[j]).start <= v[j].end
    ensures total_len(v, len, eh, i) <= total_len(v, len, eh, k), total_len(v, len, eh, i) >= 0
    decreases k
{ if i < k { lemma_total_len_mono(v, len, eh, i, k - 1); } else if i > 0 { lemma_total_len_mono(v, len, eh, i - 1, i - 1); lemma_total_len_mono(v, len, eh, 0, i - 1); } }
/// The length MultipartStream accounts with (`rest`, unit `streams`) is this total plus the 9-byte trailer.
proof fn lemma_rest_is_total(ph: Seq<Vec<u8>>, v: Seq<Range<u64>>, len: u64, eh: Seq<u8>, i: int)
    requires multipart_parts_ok(ph, v, len, eh), 0 <= i <= v.len()
    ensures total_len(v, len, eh, i) + rest(ph, v, i) == total_len(v, len, eh, v.len() as int) + 9
    decreases v.len() - i
{ if i < v.len() { lemma_rest_is_total(ph, v, len, eh, i + 1); } }
/// `name: value\r\n` for each entity header, in order.
spec fn render(es: Seq<(Seq<u8>, Seq<u8>)>, k: int) -> Seq<u8> decreases k {
    if k <= 0 { Seq::empty() } else { render(es, k - 1) + es[k - 1].0 + seq![0x3au8, 0x20u8] + es[k - 1].1 + seq![0x0du8, 0x0au8] }
}
spec fn eh_of(h: Option<http::header::HeaderMap>) -> Seq<u8> { match h { Some(h) => render(h.entries@, h.entries@.len() as int), None => Seq::<u8>::empty() } }
spec fn multipart_hdrs(common: Seq<(HeaderName, HV)>, total: u64) -> Seq<(HeaderName, HV)> {
    common.push((HeaderName::CONTENT_LENGTH, HV::Fmt("{}"@, seq![total]))).push((HeaderName::CONTENT_TYPE, HV::Static("multipart/byteranges; boundary=B"@)))
}
spec fn multipart_parts_ok(ph: Seq<Vec<u8>>, v: Seq<Range<u64>>, len: u64, ent_hdrs: Seq<u8>) -> bool {
    ph.len() == v.len() && forall|i: int| 0 <= i < v.len() ==> (#[trigger] ph[i])@ == part_header(v[i], len, ent_hdrs)
}

/// The response `serve_inner` must produce (status, exact header sequence, body kind, entity reads).
spec fn serve_post<D, E>(ent: &EntityRef<D, E>, method: &Method, req: Map<HeaderName, HeaderValue>, out: ServeInner<D, E>, calls: Seq<(u64, u64)>) -> bool {
    let len = e_len(ent);
    let head = method.k == 1;
    if method.k != 0 && method.k != 1 {
        simple(out, 405, seq![(HeaderName::ALLOW, HV::Static("get, head"@))], false) && body_once(out, Some("This resource only supports GET and HEAD."@)) && calls.len() == 0
    } else { match pmh(e_etag(ent), req, e_lm(ent)) {
        Err(s) => simple(out, 400, Seq::empty(), false) && body_once(out, Some(s@)) && calls.len() == 0,
        Ok((pf, nm)) => {
            let common = common_hdrs(ent);
            if pf { simple(out, 412, common, false) && body_once(out, Some("Precondition failed"@)) && calls.len() == 0 }
            else if nm { simple(out, 304, common, false) && body_once(out, None) && calls.len() == 0 }
            else {
                let eff = effective_range(ent, req);
                let full = simple(out, 200, common.push((HeaderName::CONTENT_LENGTH, HV::Fmt("{}"@, seq![len]))), true)
                    && (if head { body_once(out, None) && calls.len() == 0 } else { body_exact(out, ent, 0, len) && calls =~= seq![(0u64, len)] });
                serve_ranges(ent, method, req, out, calls, range::rr_view(eff, len).0, range::rr_view(eff, len).1, full)
            }
        }
    } }
}
spec fn serve_ranges<D, E>(ent: &EntityRef<D, E>, method: &Method, req: Map<HeaderName, HeaderValue>, out: ServeInner<D, E>, calls: Seq<(u64, u64)>, kind: int, v: Seq<Range<u64>>, full: bool) -> bool {
    let len = e_len(ent);
    let head = method.k == 1;
    let common = common_hdrs(ent);
    let no_if_range = !req.dom().contains(HeaderName::IF_RANGE);
    if kind == 0 { full }
    else if kind == 1 {
        simple(out, 416, common.push((HeaderName::CONTENT_RANGE, HV::Fmt("bytes */{}"@, seq![len]))), false) && body_once(out, None) && calls.len() == 0
    } else if v.len() == 1 {
        let r = v[0];
        simple(out, 206, common.push((HeaderName::CONTENT_RANGE, HV::Fmt("bytes {}-{}/{}"@, seq![r.start, (r.end - 1) as u64, len])))
                               .push((HeaderName::CONTENT_LENGTH, HV::Fmt("{}"@, seq![(r.end - r.start) as u64]))), no_if_range)
        && (if head { body_once(out, None) && calls.len() == 0 } else { body_exact(out, ent, r.start, r.end) && calls =~= seq![(r.start, r.end)] })
    } else {
        let n = v.len() as int;
        let ent_hdrs = if no_if_range { render(e_hdr_entries(ent), e_hdr_entries(ent).len() as int) } else { Seq::<u8>::empty() };
        // several ranges: multipart/byteranges of exactly those ranges in request order, or the complete 200;
        // multipart exactly when the estimate (80 bytes per part + the ranges) is below the entity length.
        if est_sum(v, n) < len {
            let total = total_len(v, len, ent_hdrs, n) + 9;
            (if total > u64::MAX {
                simple(out, 413, Seq::empty(), false) && body_once(out, Some("Multipart response too large"@))
            } else if head {
                simple(out, 206, multipart_hdrs(common, total as u64), false) && body_once(out, None)
            } else {
                out matches ServeInner::Multipart { res, part_headers, ranges, len: t }
                && multipart_parts_ok(part_headers@, v, len, ent_hdrs) && ranges@ == v && range::wf_ranges(ranges@, len) && t as int == total && t as int == rest(part_headers@, v, 0)
                && res.v@.status == 206 && res.v@.hdrs =~= multipart_hdrs(common, t)
            }) && calls.len() == 0
        } else { full }
    }
}


// ======================= per-property projections of the oracle =======================
// `serve_post` above is the complete decision; the clauses below restate it property by property (order-insensitive
// header view) so that a failing clause names the property it breaks.
pub mod hm {
    use vstd::prelude::*;
    use crate::http::{HeaderName, HV};
    /// Order-insensitive view of a header list (name -> value; a later value for the same name wins).
    pub open spec fn hmap(h: Seq<(HeaderName, HV)>) -> Map<HeaderName, HV> decreases h.len() {
        if h.len() == 0 { Map::empty() } else { hmap(h.drop_last()).insert(h.last().0, h.last().1) }
    }
    pub broadcast proof fn lemma_hmap_push(s: Seq<(HeaderName, HV)>, x: (HeaderName, HV))
        ensures #[trigger] hmap(s.push(x)) == hmap(s).insert(x.0, x.1)
    { assert(s.push(x).drop_last() =~= s); }
    pub broadcast proof fn lemma_hmap_empty()
        ensures #[trigger] hmap(Seq::<(HeaderName, HV)>::empty()) == Map::<HeaderName, HV>::empty()
    {}
}
use hm::hmap;
spec fn o_view<D, E>(out: ServeInner<D, E>) -> RespView { match out { ServeInner::Simple(r) => r.v@, ServeInner::Multipart { res, .. } => res.v@ } }
spec fn o_status<D, E>(out: ServeInner<D, E>) -> int { o_view(out).status }
spec fn o_hmap<D, E>(out: ServeInner<D, E>) -> Map<HeaderName, HV> { hmap(o_view(out).hdrs) }
spec fn is_gh(method: &Method) -> bool { method.k == 0 || method.k == 1 }
/// Conditional processing lets the request through to range selection.
spec fn proceeds<D, E>(ent: &EntityRef<D, E>, method: &Method, req: Map<HeaderName, HeaderValue>) -> bool {
    is_gh(method) && pmh(e_etag(ent), req, e_lm(ent)) == Ok::<(bool, bool), &'static str>((false, false))
}
spec fn common_map<D, E>(ent: &EntityRef<D, E>) -> Map<HeaderName, HV> { hmap(common_hdrs(ent)) }

/// C13: any other method gets 405 + Allow and reads nothing; the status is always one of the eight.
spec fn proj_c13<D, E>(ent: &EntityRef<D, E>, method: &Method, req: Map<HeaderName, HeaderValue>, out: ServeInner<D, E>, calls: Seq<(u64, u64)>) -> bool {
    &&& (!is_gh(method) ==> o_status(out) == 405 && o_hmap(out) =~= map![HeaderName::ALLOW => HV::Static("get, head"@)]
            && body_once(out, Some("This resource only supports GET and HEAD."@)) && calls.len() == 0)
    &&& (o_status(out) == 200 || o_status(out) == 206 || o_status(out) == 304 || o_status(out) == 400 || o_status(out) == 405
            || o_status(out) == 412 || o_status(out) == 413 || o_status(out) == 416)
}
/// C04: 400 on unparseable validators, else 412 exactly when the precondition fails, else 304 exactly when not modified.
spec fn proj_c04<D, E>(ent: &EntityRef<D, E>, method: &Method, req: Map<HeaderName, HeaderValue>, out: ServeInner<D, E>, calls: Seq<(u64, u64)>) -> bool {
    is_gh(method) ==> match pmh(e_etag(ent), req, e_lm(ent)) {
        Err(s) => o_status(out) == 400 && body_once(out, Some(s@)) && calls.len() == 0,
        Ok((pf, nm)) => (o_status(out) == 412) == pf && (o_status(out) == 304) == (!pf && nm) && o_status(out) != 400 && o_status(out) != 405
            && (pf ==> body_once(out, Some("Precondition failed"@)) && calls.len() == 0) && (!pf && nm ==> body_once(out, None) && calls.len() == 0),
    }
}
/// Status / Content-Range / multipart-or-200 decision for the resolved ranges (kind, v) - shared by C03 and C05.
spec fn range_outcome<D, E>(ent: &EntityRef<D, E>, method: &Method, out: ServeInner<D, E>, kind: int, v: Seq<Range<u64>>, ent_hdrs: Seq<u8>) -> bool {
    let len = e_len(ent);
    let hm = o_hmap(out);
    if kind == 0 { o_status(out) == 200 && !hm.dom().contains(HeaderName::CONTENT_RANGE) }
    else if kind == 1 { o_status(out) == 416 && hm.dom().contains(HeaderName::CONTENT_RANGE) && hm[HeaderName::CONTENT_RANGE] == HV::Fmt("bytes */{}"@, seq![len]) }
    else if v.len() == 1 {
        o_status(out) == 206 && hm.dom().contains(HeaderName::CONTENT_RANGE)
        && hm[HeaderName::CONTENT_RANGE] == HV::Fmt("bytes {}-{}/{}"@, seq![v[0].start, (v[0].end - 1) as u64, len])
        && !hm.dom().contains(HeaderName::CONTENT_TYPE)
    } else if est_sum(v, v.len() as int) < len {
        // multipart/byteranges of exactly those ranges in request order (413 only if its exact length overflows u64)
        if o_status(out) == 413 { true }
        else { o_status(out) == 206 && !hm.dom().contains(HeaderName::CONTENT_RANGE) && hm.dom().contains(HeaderName::CONTENT_TYPE)
               && hm[HeaderName::CONTENT_TYPE] == HV::Static("multipart/byteranges; boundary=B"@)
               && (method.k == 0 ==> (out matches ServeInner::Multipart { ranges, .. } && ranges@ == v)) }
    } else { o_status(out) == 200 && !hm.dom().contains(HeaderName::CONTENT_RANGE) }
}
spec fn ent_hdrs_for<D, E>(ent: &EntityRef<D, E>, req: Map<HeaderName, HeaderValue>) -> Seq<u8> {
    if !req.dom().contains(HeaderName::IF_RANGE) { render(e_hdr_entries(ent), e_hdr_entries(ent).len() as int) } else { Seq::<u8>::empty() }
}
/// C03: without If-Range, the Range header is resolved as RFC 7233 prescribes (rr_view = range::parse's result, unit `range`).
spec fn proj_c03<D, E>(ent: &EntityRef<D, E>, method: &Method, req: Map<HeaderName, HeaderValue>, out: ServeInner<D, E>, calls: Seq<(u64, u64)>) -> bool {
    (proceeds(ent, method, req) && !req.dom().contains(HeaderName::IF_RANGE)) ==> {
        let hdr: Option<&HeaderValue> = if req.dom().contains(HeaderName::RANGE) { Some(&req[HeaderName::RANGE]) } else { None };
        range_outcome(ent, method, out, range::rr_view(hdr, e_len(ent)).0, range::rr_view(hdr, e_len(ent)).1, ent_hdrs_for(ent, req))
    }
}
/// C05: with If-Range, the Range header counts only against a byte-identical strong ETag; otherwise the full 200.
spec fn proj_c05<D, E>(ent: &EntityRef<D, E>, method: &Method, req: Map<HeaderName, HeaderValue>, out: ServeInner<D, E>, calls: Seq<(u64, u64)>) -> bool {
    (proceeds(ent, method, req) && req.dom().contains(HeaderName::IF_RANGE)) ==> {
        let eff = effective_range(ent, req);
        &&& range_outcome(ent, method, out, range::rr_view(eff, e_len(ent)).0, range::rr_view(eff, e_len(ent)).1, ent_hdrs_for(ent, req))
        &&& (eff.is_none() ==> o_status(out) == 200 && !o_hmap(out).dom().contains(HeaderName::CONTENT_RANGE))
        &&& (o_status(out) == 206 ==> (out matches ServeInner::Simple(r) ==> !r.extra.entity_hdrs@))
    }
}
/// C14: validators and entity metadata.
spec fn proj_c14<D, E>(ent: &EntityRef<D, E>, method: &Method, req: Map<HeaderName, HeaderValue>, out: ServeInner<D, E>, calls: Seq<(u64, u64)>) -> bool {
    let st = o_status(out);
    &&& ((st == 200 || st == 206 || st == 304 || st == 412 || st == 416) ==>
            forall|k: HeaderName| #[trigger] common_map(ent).dom().contains(k) ==> o_hmap(out).dom().contains(k) && o_hmap(out)[k] == common_map(ent)[k])
    &&& (out matches ServeInner::Simple(r) ==> r.extra.entity_hdrs@ == (st == 200 || (st == 206 && !req.dom().contains(HeaderName::IF_RANGE) && !o_hmap(out).dom().contains(HeaderName::CONTENT_TYPE))))
    &&& (out matches ServeInner::Multipart { part_headers, ranges, .. } ==> multipart_parts_ok(part_headers@, ranges@, e_len(ent), ent_hdrs_for(ent, req)))
    // echoing a served strong ETag in If-Range gets the requested range (status of the Range header's own resolution)
    &&& ((proceeds(ent, method, req) && req.dom().contains(HeaderName::IF_RANGE) && req.dom().contains(HeaderName::RANGE)
            && (e_etag(ent) matches Some(e) && is_tag_form(e.bytes@) && !etag_spec::is_weak(e.bytes@) && req[HeaderName::IF_RANGE].bytes@ =~= e.bytes@)) ==>
        range_status(ent, out, range::rr_view(Some(&req[HeaderName::RANGE]), e_len(ent)).0, range::rr_view(Some(&req[HeaderName::RANGE]), e_len(ent)).1))
}
/// Status alone of `range_outcome`.
spec fn range_status<D, E>(ent: &EntityRef<D, E>, out: ServeInner<D, E>, kind: int, v: Seq<Range<u64>>) -> bool {
    if kind == 0 { o_status(out) == 200 }
    else if kind == 1 { o_status(out) == 416 }
    else if v.len() == 1 { o_status(out) == 206 }
    else if est_sum(v, v.len() as int) < e_len(ent) { o_status(out) == 206 || o_status(out) == 413 }
    else { o_status(out) == 200 }
}
/// The length a body announces through its own accounting (its exact size hint, unit `streams`).
spec fn announced<D, E>(out: ServeInner<D, E>) -> Option<u64> {
    match out {
        ServeInner::Simple(r) => match r.body.0 { BodyStream::ExactLen(s) => Some(s.remaining), _ => None },
        ServeInner::Multipart { len, .. } => Some(len),
    }
}
/// C01: every 200/206 carries a Content-Length, equal to what the body will account for; the others carry none and a Once body.
spec fn proj_c01<D, E>(ent: &EntityRef<D, E>, method: &Method, req: Map<HeaderName, HeaderValue>, out: ServeInner<D, E>, calls: Seq<(u64, u64)>) -> bool {
    let st = o_status(out);
    let hm = o_hmap(out);
    &&& ((st == 200 || st == 206) ==> hm.dom().contains(HeaderName::CONTENT_LENGTH))
    &&& ((st == 200 || st == 206) && method.k == 0 ==> (announced(out) matches Some(n) && hm[HeaderName::CONTENT_LENGTH] == HV::Fmt("{}"@, seq![n])))
    &&& (!(st == 200 || st == 206) ==> !hm.dom().contains(HeaderName::CONTENT_LENGTH) && (out matches ServeInner::Simple(r) && r.body.0 is Once))
    &&& (out matches ServeInner::Multipart { part_headers, ranges, len, .. } ==> len as int == rest(part_headers@, ranges@, 0)
            && part_headers@.len() == ranges@.len() && range::wf_ranges(ranges@, e_len(ent)))
}
/// C02: the body is the entity stream for exactly the bytes the status and Content-Range name.
spec fn proj_c02<D, E>(ent: &EntityRef<D, E>, method: &Method, req: Map<HeaderName, HeaderValue>, out: ServeInner<D, E>, calls: Seq<(u64, u64)>) -> bool {
    let st = o_status(out);
    let hm = o_hmap(out);
    let len = e_len(ent);
    method.k == 0 ==> {
        &&& (st == 200 ==> body_exact(out, ent, 0, len) && calls =~= seq![(0u64, len)])
        &&& (st == 206 && out is Simple ==> calls.len() == 1 && calls[0].0 < calls[0].1 && calls[0].1 <= len
                && body_exact(out, ent, calls[0].0, calls[0].1)
                && hm.dom().contains(HeaderName::CONTENT_RANGE) && hm[HeaderName::CONTENT_RANGE] == HV::Fmt("bytes {}-{}/{}"@, seq![calls[0].0, (calls[0].1 - 1) as u64, len]))
        &&& (!(st == 200 || (st == 206 && out is Simple)) ==> calls.len() == 0)
    }
}
/// C06: a multi-range 206 is multipart/byteranges with exactly the part headers, ranges in request order and exact length.
spec fn proj_c06<D, E>(ent: &EntityRef<D, E>, method: &Method, req: Map<HeaderName, HeaderValue>, out: ServeInner<D, E>, calls: Seq<(u64, u64)>) -> bool {
    let hm = o_hmap(out);
    let len = e_len(ent);
    // 413 only when the exact multipart length does not fit in u64
    &&& ((o_status(out) == 413 && method.k == 0 && !req.dom().contains(HeaderName::IF_RANGE)) ==> (proceeds(ent, method, req) && {
            let v = range::rr_view(effective_range(ent, req), len).1;
            total_len(v, len, ent_hdrs_for(ent, req), v.len() as int) + 9 > u64::MAX }))
    &&& (out matches ServeInner::Multipart { res, part_headers, ranges, len: t } ==> {
            &&& multipart_parts_ok(part_headers@, ranges@, len, ent_hdrs_for(ent, req))
            &&& t as int == total_len(ranges@, len, ent_hdrs_for(ent, req), ranges@.len() as int) + 9
            &&& res.v@.status == 206 && ranges@.len() >= 2
            &&& hm.dom().contains(HeaderName::CONTENT_TYPE) && hm[HeaderName::CONTENT_TYPE] == HV::Static("multipart/byteranges; boundary=B"@)
            &&& hm.dom().contains(HeaderName::CONTENT_LENGTH) && hm[HeaderName::CONTENT_LENGTH] == HV::Fmt("{}"@, seq![t])
            &&& !hm.dom().contains(HeaderName::CONTENT_RANGE)
            &&& ((proceeds(ent, method, req) && !req.dom().contains(HeaderName::IF_RANGE)) ==> ranges@ == range::rr_view(effective_range(ent, req), len).1)
        })
}
/// C15: HEAD never reads the entity and has an empty body.
spec fn proj_c15<D, E>(ent: &EntityRef<D, E>, method: &Method, req: Map<HeaderName, HeaderValue>, out: ServeInner<D, E>, calls: Seq<(u64, u64)>) -> bool {
    method.k == 1 ==> {
        &&& calls.len() == 0
        &&& out is Simple
        &&& ((o_status(out) == 200 || o_status(out) == 206 || o_status(out) == 304 || o_status(out) == 416) ==> body_once(out, None))
    }
}
/// Status and headers obey the decision oracle (all header-producing clauses together).  C15's mirror clause is
/// relational: "HEAD conforms whenever GET conforms" - the HEAD instance is reported for C15 only if the GET instance holds.
spec fn conforms<D, E>(ent: &EntityRef<D, E>, method: &Method, req: Map<HeaderName, HeaderValue>, out: ServeInner<D, E>, calls: Seq<(u64, u64)>) -> bool {
    &&& proj_c04(ent, method, req, out, calls) && proj_c03(ent, method, req, out, calls) && proj_c05(ent, method, req, out, calls)
    &&& proj_c14(ent, method, req, out, calls) && proj_c06(ent, method, req, out, calls)
    &&& ((o_status(out) == 200 || o_status(out) == 206) ==> o_hmap(out).dom().contains(HeaderName::CONTENT_LENGTH))
    &&& multipart_head_length(ent, method, req, out)
}
/// HEAD of a multipart response announces the same exact length GET's body has.
spec fn multipart_head_length<D, E>(ent: &EntityRef<D, E>, method: &Method, req: Map<HeaderName, HeaderValue>, out: ServeInner<D, E>) -> bool {
    let hm = o_hmap(out);
    let len = e_len(ent);
    (o_status(out) == 206 && method.k == 1 && hm.dom().contains(HeaderName::CONTENT_TYPE) && proceeds(ent, method, req)) ==> {
        let v = range::rr_view(effective_range(ent, req), len).1;
        hm.dom().contains(HeaderName::CONTENT_LENGTH) && hm[HeaderName::CONTENT_LENGTH] == HV::Fmt("{}"@, seq![(total_len(v, len, ent_hdrs_for(ent, req), v.len() as int) + 9) as u64])
    }
}

//@fn src/serving.rs :: fn prepare_multipart props=C01,C06,C13 implicit=C13 rules=R10,R14,R20,R22,R23,STD
#[verifier::loop_isolation(false)]
fn prepare_multipart(mut res: http::response::Builder, ranges: &[Range<u64>], len: u64, include_entity_headers: Option<http::header::HeaderMap>)
    -> (out: Result<(http::response::Builder, Vec<Vec<u8>>, u64), MultipartLenOverflowError>)
    requires forall|j: int| 0 <= j < ranges@.len() ==> (#[trigger] ranges@[j]).start < ranges@[j].end,
    ensures
        /*@C01,C06 #multipart_overflow_is_error*/ total_len(ranges@, len, eh_of(include_entity_headers), ranges@.len() as int) + 9 > u64::MAX ==> out is Err,
        /*@C01,C06 #multipart_length_and_headers*/ total_len(ranges@, len, eh_of(include_entity_headers), ranges@.len() as int) + 9 <= u64::MAX ==> (out matches Ok(t)
            && multipart_parts_ok(t.1@, ranges@, len, eh_of(include_entity_headers))
            && t.2 as int == total_len(ranges@, len, eh_of(include_entity_headers), ranges@.len() as int) + 9 && t.2 as int == rest(t.1@, ranges@, 0)
            && t.0.v@.status == 206 && t.0.v@.hdrs == multipart_hdrs(res.v@.hdrs, t.2)),
//@body
//@ loop 1: invariant it_.rest@.len() <= h.entries@.len(), it_.rest@ =~= h.entries@.subrange(h.entries@.len() - it_.rest@.len(), h.entries@.len() as int),
//@ | each_part_headers@ == render(h.entries@, h.entries@.len() - it_.rest@.len()), decreases it_.rest@.len(),
//@ after "else { break };": proof { assert(it_.rest@ =~= h.entries@.subrange(h.entries@.len() - it_.rest@.len(), h.entries@.len() as int)); }
//@ at_start: proof { reveal_strlit("{}"); }
//@ before "let mut body_len: u64 = 0;": let ghost eh = each_part_headers@; proof { fmtw::vec_len_bound(each_part_headers); }
//@ loop 2: invariant i_ <= ranges.len(), part_headers@.len() == i_, each_part_headers@ == eh,
//@ | /*@C06 #inv_part_headers_text*/ forall|j: int| 0 <= j < i_ ==> (#[trigger] part_headers@[j])@ == part_header(ranges@[j], len, eh),
//@ | /*@C01,C06 #inv_body_len_is_exact*/ body_len as int == total_len(ranges@, len, eh, i_ as int), decreases ranges.len() - i_,
//@ after "i_ += 1;": proof { lemma_total_len_mono(ranges@, len, eh, i_ as int, ranges@.len() as int); }
//@ before "Ok((res, part_headers, body_len))": proof { assert(multipart_parts_ok(part_headers@, ranges@, len, eh)); lemma_rest_is_total(part_headers@, ranges@, len, eh, 0); }
//@end

//@fn src/serving.rs :: fn serve_inner add=calls props=C01,C02,C03,C04,C05,C06,C13,C14,C15 implicit=C13 rules=R8,R9,R11,R16,R20,R22,R23,R28,R29,STD
#[verifier::loop_isolation(false)]
fn serve_inner<D, E>(ent: &EntityRef<D, E>, method: &Method, req_hdrs: &HeaderMap, calls: &mut Ghost<Seq<(u64, u64)>>) -> (out: ServeInner<D, E>)
    requires req_hdrs.req_wf(), e_etag(ent) matches Some(e) ==> e.wf(), old(calls)@ == Seq::<(u64, u64)>::empty(),
    ensures
        /*@C00 #serve_decision_master*/ serve_post(ent, method, req_hdrs.m@, out, final(calls)@),
        /*@C13 #total_and_405*/ proj_c13(ent, method, req_hdrs.m@, out, final(calls)@),
        /*@C04 #conditional_precedence*/ proj_c04(ent, method, req_hdrs.m@, out, final(calls)@),
        /*@C03 #range_resolution_outcome*/ proj_c03(ent, method, req_hdrs.m@, out, final(calls)@),
        /*@C05 #if_range_gate*/ proj_c05(ent, method, req_hdrs.m@, out, final(calls)@),
        /*@C14 #validators_and_entity_headers*/ proj_c14(ent, method, req_hdrs.m@, out, final(calls)@),
        /*@C01 #content_length_matches_body*/ proj_c01(ent, method, req_hdrs.m@, out, final(calls)@),
        /*@C02 #body_is_named_entity_bytes*/ proj_c02(ent, method, req_hdrs.m@, out, final(calls)@),
        /*@C06 #multipart_shape*/ proj_c06(ent, method, req_hdrs.m@, out, final(calls)@),
        /*@C15 #head_reads_nothing*/ proj_c15(ent, method, req_hdrs.m@, out, final(calls)@),
        /*@C00 #get_conforms*/ method.k == 0 ==> conforms(ent, method, req_hdrs.m@, out, final(calls)@),
        /*@C15 #head_conforms unless=get_conforms*/ method.k == 1 ==> conforms(ent, method, req_hdrs.m@, out, final(calls)@),
//@body
//@ at_start: proof { reveal_strlit("{}"); reveal_strlit("bytes */{}"); reveal_strlit("bytes {}-{}/{}"); }
//@ implicit C03,C13 from "range::parse("
//@ loop 1: invariant k_ <= ranges.len(), /*@C03 #estimate_is_80_per_part_plus_ranges*/ (acc_o matches Some(a) ==> a as int == est_sum(ranges@, k_ as int)) && (acc_o.is_none() ==> est_sum(ranges@, k_ as int) > u64::MAX), decreases ranges.len() - k_,
//@end

/// What `serve` hands to hyper, mapped back to the decision `serve_inner` took.
spec fn as_inner<D, E>(resp: Response<Body<D, E>>) -> ServeInner<D, E> {
    match resp.body.0 {
        BodyStream::Multipart(ms) => ServeInner::Multipart { res: http::response::Builder { v: resp.v }, part_headers: ms.part_headers, ranges: ms.ranges, len: ms.len },
        _ => ServeInner::Simple(resp),
    }
}

//@fn src/serving.rs :: fn serve add=calls props=C01,C02,C03,C04,C05,C06,C13,C14,C15 implicit=C13 rules=R28,STD
fn serve<D, E>(entity: EntityRef<D, E>, req: &http::Request, calls: &mut Ghost<Seq<(u64, u64)>>) -> (resp: Response<Body<D, E>>)
    requires req.headers.req_wf(), e_etag(&entity) matches Some(e) ==> e.wf(), old(calls)@ == Seq::<(u64, u64)>::empty(),
    ensures
        /*@C00 #serve_is_serve_inner_master*/ serve_post(&entity, &req.method, req.headers.m@, as_inner(resp), final(calls)@),
        /*@C13 #serve_total_and_405*/ proj_c13(&entity, &req.method, req.headers.m@, as_inner(resp), final(calls)@),
        /*@C04 #serve_conditional_precedence*/ proj_c04(&entity, &req.method, req.headers.m@, as_inner(resp), final(calls)@),
        /*@C03 #serve_range_resolution_outcome*/ proj_c03(&entity, &req.method, req.headers.m@, as_inner(resp), final(calls)@),
        /*@C05 #serve_if_range_gate*/ proj_c05(&entity, &req.method, req.headers.m@, as_inner(resp), final(calls)@),
        /*@C14 #serve_validators_and_entity_headers*/ proj_c14(&entity, &req.method, req.headers.m@, as_inner(resp), final(calls)@),
        /*@C01 #serve_content_length_matches_body*/ proj_c01(&entity, &req.method, req.headers.m@, as_inner(resp), final(calls)@),
        /*@C02 #serve_body_is_named_entity_bytes*/ proj_c02(&entity, &req.method, req.headers.m@, as_inner(resp), final(calls)@),
        /*@C06 #serve_multipart_shape*/ proj_c06(&entity, &req.method, req.headers.m@, as_inner(resp), final(calls)@),
        /*@C15 #serve_head_reads_nothing*/ proj_c15(&entity, &req.method, req.headers.m@, as_inner(resp), final(calls)@),
        /*@C00 #serve_get_conforms*/ req.method.k == 0 ==> conforms(&entity, &req.method, req.headers.m@, as_inner(resp), final(calls)@),
        /*@C15 #serve_head_conforms unless=serve_get_conforms*/ req.method.k == 1 ==> conforms(&entity, &req.method, req.headers.m@, as_inner(resp), final(calls)@),
        /*@C01,C06 #multipart_body_owns_entity*/ resp.body.0 matches BodyStream::Multipart(ms) ==> ms.entity == entity,
//@body
//@end

//@auto_helpers src/serving.rs rules=R22,R23
//@lits
//@canary_false
} // verus!
fn main() {}
