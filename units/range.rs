// Unit `range`: src/range.rs `parse` against the RFC 7233 resolver of specs/range_spec.rs (C03, C02, C13).
#![feature(allocator_api)]
use vstd::prelude::*;
use std::ops::Range;
verus! {

//@include prelude/core.rs
//@include prelude/str.rs
//@include prelude/http.rs
//@include specs/range_spec.rs
use strs::*;
use range_spec::*;
broadcast use strs::lemma_trim_two_steps;
use http::HeaderValue;
pub mod cmp { use vstd::prelude::*; pub fn min(a: u64, b: u64) -> (r: u64) ensures r == (if a <= b { a } else { b }) { if a <= b { a } else { b } } }

//@item src/range.rs :: enum ResolvedRanges rules=R16

pub open spec fn hv_str(range: Option<&HeaderValue>) -> Option<Str> {
    match range { Some(v) => http::sp_to_str(v.bytes@), None => None }
}
pub open spec fn parse_post(range: Option<&HeaderValue>, len: u64, res: ResolvedRanges) -> bool {
    parse_spec(hv_str(range), len, res is None, res is NotSatisfiable, match res { ResolvedRanges::Satisfiable(v) => Some(v@), _ => None })
}

/// `1*DIGIT` of any length; a value beyond 64 bits is represented by u64::MAX (it is beyond every entity length, and
/// `resolve` cannot tell the two apart: lemma_sat_resolve).
pub open spec fn sat(n: nat) -> u64 { if n <= u64::MAX { n as u64 } else { u64::MAX } }
pub open spec fn pos_sat(s: Seq<u8>) -> Option<u64> { if all_digits(s) { Some(sat(dec(s))) } else { None } }

//@fn src/range.rs :: fn parse_pos props=C03,C13 implicit=C13 rules=R10,R20 missing=skip
#[verifier::loop_isolation(false)]
fn parse_pos(s: Str) -> (r: Option<u64>)
    ensures /*@C03 #positions_are_1_digit_of_any_length*/ r == pos_sat(s.b()),
//@body
//@ loop 1: invariant i_ <= digits@.len(), digits@ == s.b(), forall|i: int| 0 <= i < i_ ==> is_digit(#[trigger] digits@[i]), /*@C03 #inv_value_of_digits_so_far*/ pos == sat(dec(digits@.subrange(0, i_ as int))), decreases digits@.len() - i_,
//@ after "i_ += 1;": proof { assert(digits@.subrange(0, i_ as int).drop_last() =~= digits@.subrange(0, i_ - 1)); }
//@ before "Some(pos)": proof { assert(digits@.subrange(0, i_ as int) =~= digits@); }
//@end

//@fn src/range.rs :: fn parse props=C02,C03,C13 implicit=C03,C13 rules=R10,R16,R19,R20,R7,R27,R29
#[verifier::loop_isolation(false)]
pub fn parse(range: Option<&HeaderValue>, len: u64) -> (res: ResolvedRanges)
    ensures
        /*@C03,C02 #rfc7233_resolution*/ parse_post(range, len, res),
//@body
//@ before "let mut ranges:": proof { reveal_strlit("bytes="); } let ghost es = sp_split(bytes, ','); proof { assert(is_ascii(bytes.b())); lemma_split_ascii(bytes.b(), 0x2cu8); assert(bytes.b() =~= range.b().subrange(6, range.b().len() as int)); }
//@ loop 1: invariant it_.rest@.len() <= es.len(), it_.rest@ =~= es.subrange(es.len() - it_.rest@.len(), es.len() as int),
//@ | /*@C03 #inv_all_elements_lex*/ all_lex(es, es.len() - it_.rest@.len()), /*@C02,C03 #inv_ranges_are_rfc_selection*/ view_ranges(ranges@) =~= sel(es, es.len() - it_.rest@.len(), len),
//@ | decreases it_.rest@.len(),
//@ after "loop {": let ghost k0 = es.len() - it_.rest@.len(); proof { if it_.rest@.len() > 0 { assert(it_.rest@[0] == es[k0]); } } let ghost rg0 = ranges@;
//@ after "else { break };": proof { assert(r == es[k0]); assert(it_.rest@ =~= es.subrange(k0 + 1, es.len() as int)); assert(is_ascii(split_b(bytes.b(), 0x2cu8)[k0])); lemma_trim_ascii(r.b(), is_ows()); lemma_first_at(trim_b(r.b(), is_ows()), 0, 0x2du8); lemma_first_at(trim_start_b(r.b(), is_ows()), 0, 0x2du8); }
//@ after "ranges.push((len - last)..len);": proof { assert(view_ranges(ranges@) =~= view_ranges(rg0).push(((len - last) as int, len as int))); }
//@ after "ranges.push(first..end);": proof { assert(view_ranges(ranges@) =~= view_ranges(rg0).push((first as int, end as int))); }
//@ before "if !ranges.is_empty()": proof { assert(it_.rest@.len() == 0); assert(view_ranges(ranges@).len() == ranges@.len()); }
//@end

//@lemma props=C02,C03 lemma_parse_ranges_wf
/// Exported to the glue: every returned range is non-empty, inside the entity, and there is at least one.
pub proof fn lemma_parse_ranges_wf(range: Option<&HeaderValue>, len: u64, res: ResolvedRanges)
    requires parse_post(range, len, res)
    ensures
        /*@C02,C03 #ranges_nonempty_and_inside*/ res matches ResolvedRanges::Satisfiable(v) ==> (v@.len() >= 1 && forall|j: int| 0 <= j < v@.len() ==> (#[trigger] v@[j]).start < v@[j].end && v@[j].end <= len),
        /*@C03 #absent_header_is_none*/ range.is_none() ==> res is None,
{
    if let ResolvedRanges::Satisfiable(v) = res {
        if let Some(h) = hv_str(range) {
            let es = sp_split(mk(h.b().subrange(6, h.b().len() as int)), ',');
            lemma_sel_wf(es, es.len() as int, len);
            assert forall|j: int| 0 <= j < v@.len() implies (#[trigger] v@[j]).start < v@[j].end && v@[j].end <= len by {
                assert(view_ranges(v@)[j] == sel(es, es.len() as int, len)[j]);
            }
        }
    }
}
//@endlemma

//@auto_helpers src/range.rs
//@canary_false
} // verus!
fn main() {}
