// Unit `etag`: src/etag.rs weak_eq / strong_eq / List::next against the byte-level RFC 7232 specification
// (specs/etag_spec.rs).  These discharge the callee contracts used by units `cond` and `glue`.
#![feature(allocator_api)]
use vstd::prelude::*;
verus! {

//@include prelude/core.rs
//@include specs/etag_spec.rs
//@include prelude/slice.rs
use etag_spec::*;
use sl::*;
broadcast use sl::slice_len_bound;

//@item src/etag.rs :: struct List vis=pub rules=T_pubfields
//@include specs/etag_contracts.rs

proof fn lemma_opaque(a: Seq<u8>)
    ensures starts_with_s(a, seq![0x57u8, 0x2fu8]) == is_weak(a)
{
    if a.len() >= 2 { assert(a.subrange(0, 2) =~= seq![a[0], a[1]]); if is_weak(a) { assert(seq![a[0], a[1]] =~= seq![0x57u8, 0x2fu8]); } else { if a.subrange(0, 2) == seq![0x57u8, 0x2fu8] { assert(a.subrange(0, 2)[0] == 0x57u8 && a.subrange(0, 2)[1] == 0x2fu8); } } }
}

//@fn src/etag.rs :: fn weak_eq props=C04,C14 implicit=C13 rules=R22,R30
pub fn weak_eq(a: &[u8], b: &[u8]) -> (r: bool)
    ensures /*@C04 #weak_comparison*/ r == weak_eq_s(a@, b@),
            /*@C14 #weak_eq_reflexive*/ a@ =~= b@ ==> r,
//@body
//@ at_start: proof { lemma_opaque(a@); lemma_opaque(b@); }
//@end

//@fn src/etag.rs :: fn strong_eq props=C04,C05,C14 implicit=C13 rules=R22
pub fn strong_eq(a: &[u8], b: &[u8]) -> (r: bool)
    ensures /*@C04,C05 #strong_comparison*/ r == strong_eq_s(a@, b@),
            /*@C14 #strong_eq_reflexive_on_strong_tags*/ (a@ =~= b@ && !is_weak(a@)) ==> r,
//@body
//@ at_start: proof { lemma_opaque(a@); }
//@end

proof fn lemma_skip_ows_step(s: Seq<u8>)
    requires s.len() > 0, s[0] == 0x20u8 || s[0] == 0x09u8
    ensures skip_ows(s) == skip_ows(s.subrange(1, s.len() as int))
{}
proof fn lemma_skip_ows_done(s: Seq<u8>)
    requires s.len() == 0 || !(s[0] == 0x20u8 || s[0] == 0x09u8)
    ensures skip_ows(s) == s
{}
proof fn lemma_first_at_shift(s: Seq<u8>, k: int, from: int, c: u8)
    requires 0 <= k <= s.len(), 0 <= from
    ensures first_at(s, k + from, c) == (match first_at(s.subrange(k, s.len() as int), from, c) { Some(q) => Some(q + k), None => None })
    decreases s.len() - k - from
{
    let t = s.subrange(k, s.len() as int);
    if from < t.len() { assert(t[from] == s[k + from]); if t[from] != c { lemma_first_at_shift(s, k, from + 1, c); } }
}

impl<'a> List<'a> {
    //@fn src/etag.rs :: impl Iterator for List :: fn next props=C04,C14 implicit=C13 rules=R8b,R22,R26,R27,R31
    #[verifier::loop_isolation(false)]
    pub fn next(&mut self) -> (r: Option<&'a [u8]>)
        ensures /*@C04 #list_element_semantics*/ next_post(*old(self), r, *final(self)),
    //@body
    //@ at_start: let ghost rem0 = self.remaining@; proof { if rem0.len() >= 3 { lemma_first_at_shift(rem0, 3, 0, 0x22u8); lemma_first_at_bounds(rem0.subrange(3, rem0.len() as int), 0, 0x22u8); assert(rem0.subrange(0, 3) =~= seq![rem0[0], rem0[1], rem0[2]]); } if rem0.len() >= 1 { lemma_first_at_shift(rem0, 1, 0, 0x22u8); lemma_first_at_bounds(rem0.subrange(1, rem0.len() as int), 0, 0x22u8); assert(rem0.subrange(0, 1) =~= seq![rem0[0]]); } }
    //@ before "let Some(end) = end else": proof { lemma_first_at_bounds(rem0, 3, 0x22u8); lemma_first_at_bounds(rem0, 1, 0x22u8); }
    //@ after "slice_split_at(self.remaining, end + 1);": let ghost rest0 = rem@;
    //@ loop 1: invariant skip_ows(next@) == skip_ows(rest0), decreases next@.len(),
    //@ loop 2: invariant skip_ows(next@) == skip_ows(r1.subrange(1, r1.len() as int)), decreases next@.len(),
    //@ after "let tail = slice_from(next, 1);" #1: proof { lemma_skip_ows_step(next@); }
    //@ after "let tail = slice_from(next, 1);" #2: proof { lemma_skip_ows_step(next@); }
    //@ before "if next.len() >= 1 && next[0] == ": proof { lemma_skip_ows_done(next@); } let ghost r1 = next@;
    //@ before "self.remaining = next;": proof { if r1.len() > 0 && r1[0] == 0x2cu8 { lemma_skip_ows_done(next@); } }
    //@end
}

//@auto_helpers src/etag.rs rules=R22
//@lits
//@canary_false
} // verus!
fn main() {}
