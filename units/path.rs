// Unit `path`: src/dir.rs validate_path (the path-validation clause of C19).
#![feature(allocator_api)]
use vstd::prelude::*;
verus! {

//@include prelude/core.rs
//@include prelude/str.rs
//@include prelude/http.rs
//@include specs/etag_spec.rs
//@include prelude/slice.rs
use http::{HeaderMap, HeaderName, HeaderValue, HV};
use http::header;
use etag_spec::first_at;
use sl::*;
broadcast use sl::slice_len_bound;

pub mod memchr {
    use vstd::prelude::*;
    /// memchr::memchr: index of the first occurrence (assumed contract on the memchr crate).
    #[verifier::external_body]
    pub fn memchr(c: u8, s: &[u8]) -> (r: Option<usize>)
        ensures r == (match crate::etag_spec::first_at(s@, 0, c) { Some(q) => Some(q as usize), None => None })
    { unimplemented!() }
}

pub open spec fn dotdot() -> Seq<u8> { seq![0x2eu8, 0x2eu8] }
/// Some `/`-separated segment (maximal `/`-free run) of s is exactly `..`.
pub open spec fn has_dotdot_segment(s: Seq<u8>) -> bool decreases s.len() {
    match first_at(s, 0, 0x2fu8) {
        None => s =~= dotdot(),
        Some(q) => if 0 <= q < s.len() { s.subrange(0, q) =~= dotdot() || has_dotdot_segment(s.subrange(q + 1, s.len() as int)) } else { false },
    }
}
/// C19: a path is refused exactly when it is absolute, contains a NUL byte or has a `..` segment.
pub open spec fn path_refused(p: Seq<u8>) -> bool {
    first_at(p, 0, 0u8).is_some() || (p.len() > 0 && p[0] == 0x2fu8) || has_dotdot_segment(p)
}

//@fn src/dir.rs :: fn validate_path props=C19 implicit=C19 rules=R17,R22,R19b,STD
#[verifier::loop_isolation(false)]
fn validate_path(path: &[u8]) -> (r: Result<(), &'static str>)
    ensures /*@C19 #refused_iff_absolute_nul_or_dotdot*/ r.is_err() == path_refused(path@),
//@body
//@ loop 1: invariant /*@C19 #inv_no_dotdot_before*/ has_dotdot_segment(path@) == has_dotdot_segment(left@), decreases left@.len(),
//@ after "loop {": proof { crate::etag_spec::lemma_first_at_bounds(left@, 0, 0x2fu8); }
//@end

// ---- src/dir.rs: Node (what `FsDir::get` returns): encoding reporting (last clause of C19) ----
pub struct FileStub;
pub struct MetaStub;
//@item src/dir.rs :: struct Node rules=T_node
impl Node {
    //@fn src/dir.rs :: impl Node :: fn encoding props=C19
    fn encoding(&self) -> (r: Option<&'static str>)
        ensures /*@C19 #encoding_is_gzip_iff_substituted*/ self.is_gzipped ==> (r matches Some(e) && e@ == "gzip"@), !self.is_gzipped ==> r.is_none(),
    //@body
    //@end

    //@fn src/dir.rs :: impl Node :: fn encoding_varies props=C19
    fn encoding_varies(&self) -> (r: bool)
        ensures /*@C19 #varies_iff_auto_gzip*/ r == self.auto_gzip,
    //@body
    //@end

    //@fn src/dir.rs :: impl Node :: fn add_encoding_headers props=C19
    fn add_encoding_headers(&self, hdrs: &mut HeaderMap)
        ensures /*@C19 #encoding_headers*/ final(hdrs).inserted@ =~= {
            let a = if self.is_gzipped { old(hdrs).inserted@.insert(HeaderName::CONTENT_ENCODING, HV::Static("gzip"@)) } else { old(hdrs).inserted@ };
            if self.auto_gzip { a.insert(HeaderName::VARY, HV::Static("accept-encoding"@)) } else { a } },
    //@body
    //@end
}

//@auto_helpers src/dir.rs rules=R22
//@lits
//@canary_false
} // verus!
fn main() {}
