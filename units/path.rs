// Unit `path`: src/dir.rs validate_path, the Node encoding methods, and FsDir::get's decision logic (C19): which paths are
// refused before any system call, which openat calls are made with which byte strings, and which file ends up in the Node.
// What openat / fstat do is the OS's business (assumed contract `open_file`, bounded native cross-check).
#![feature(allocator_api)]
use vstd::prelude::*;
verus! {

//@include prelude/core.rs
//@include prelude/str.rs
//@include prelude/http.rs
//@include specs/etag_spec.rs
//@include prelude/slice.rs
use http::{HeaderMap, HeaderName, HeaderValue, HV};
use http::header;
use etag_spec::first_at;
use sl::*;
use std::sync::Arc;
broadcast use sl::slice_len_bound;

pub mod memchr {
    use vstd::prelude::*;
    /// memchr::memchr: index of the first occurrence (assumed contract on the memchr crate).
    #[verifier::external_body]
    pub fn memchr(c: u8, s: &[u8]) -> (r: Option<usize>)
        ensures r == (match crate::etag_spec::first_at(s@, 0, c) { Some(q) => Some(q as usize), None => None })
    { unimplemented!() }
}

pub open spec fn dotdot() -> Seq<u8> { seq![0x2eu8, 0x2eu8] }
/// Some `/`-separated segment (maximal `/`-free run) of s is exactly `..`.
pub open spec fn has_dotdot_segment(s: Seq<u8>) -> bool decreases s.len() {
    match first_at(s, 0, 0x2fu8) {
        None => s =~= dotdot(),
        Some(q) => if 0 <= q < s.len() { s.subrange(0, q) =~= dotdot() || has_dotdot_segment(s.subrange(q + 1, s.len() as int)) } else { false },
    }
}
/// C19: a path is refused exactly when it is absolute, contains a NUL byte or has a `..` segment.
pub open spec fn path_refused(p: Seq<u8>) -> bool {
    first_at(p, 0, 0u8).is_some() || (p.len() > 0 && p[0] == 0x2fu8) || has_dotdot_segment(p)
}

//@fn src/dir.rs :: fn validate_path props=C19 implicit=C19 rules=R17,R22,R19b,STD
#[verifier::loop_isolation(false)]
fn validate_path(path: &[u8]) -> (r: Result<(), &'static str>)
    ensures /*@C19 #refused_iff_absolute_nul_or_dotdot*/ r.is_err() == path_refused(path@),
//@body
//@ loop 1: invariant /*@C19 #inv_no_dotdot_before*/ has_dotdot_segment(path@) == has_dotdot_segment(left@), decreases left@.len(),
//@ after "loop {": proof { crate::etag_spec::lemma_first_at_bounds(left@, 0, 0x2fu8); }
//@end

// ---- src/dir.rs: Node (what `FsDir::get` returns): encoding reporting (last clause of C19) ----
/// std::fs::File / Metadata as far as dir.rs looks at them: an opened file is identified by the openat call that produced it.
pub uninterp spec fn sp_meta_ok(id: int) -> bool;      // fstat on that file succeeds
pub uninterp spec fn sp_is_dir(id: int) -> bool;       // ... and says it is a directory
pub uninterp spec fn sp_is_file(id: int) -> bool;      // ... or a regular file (a device, socket or FIFO is neither)
pub struct FileStub { pub id: Ghost<int> }
pub struct MetaStub { pub of: Ghost<int> }
impl FileStub {
    #[verifier::external_body]
    pub fn metadata(&self) -> (r: Result<MetaStub, Error>) ensures r.is_ok() == sp_meta_ok(self.id@), r matches Ok(m) ==> m.of@ == self.id@ { unimplemented!() }
}
impl MetaStub {
    #[verifier::external_body]
    pub fn is_dir(&self) -> (r: bool) ensures r == sp_is_dir(self.of@) { unimplemented!() }
    /// (not used by the pinned code)
    #[verifier::external_body]
    pub fn is_file(&self) -> (r: bool) ensures r == sp_is_file(self.of@), r ==> !sp_is_dir(self.of@) { unimplemented!() }
}
/// std::io::{Error, ErrorKind} as far as dir.rs uses them.
#[derive(Clone, Copy)]
pub struct ErrorKind { pub k: u8 }
impl ErrorKind {
    #[allow(non_upper_case_globals)] pub const InvalidInput: ErrorKind = ErrorKind { k: 0 };
    #[allow(non_upper_case_globals)] pub const NotFound: ErrorKind = ErrorKind { k: 1 };
    #[allow(non_upper_case_globals)] pub const Other: ErrorKind = ErrorKind { k: 2 };
}
impl vstd::std_specs::cmp::PartialEqSpecImpl for ErrorKind {
    open spec fn obeys_eq_spec() -> bool { true }
    open spec fn eq_spec(&self, o: &ErrorKind) -> bool { self.k == o.k }
}
impl PartialEq for ErrorKind { fn eq(&self, o: &ErrorKind) -> (r: bool) ensures r == (self.k == o.k) { self.k == o.k } }
pub struct Error { pub kind: ErrorKind }
impl Error {
    pub fn new(kind: ErrorKind, _msg: &str) -> (r: Error) ensures r.kind == kind { Error { kind } }
    pub fn kind(&self) -> (r: ErrorKind) ensures r == self.kind { self.kind }
}
/// std::ffi::CStr: the bytes including the terminating NUL.
pub struct CStr { pub b: Ghost<Seq<u8>> }
/// `unsafe { CStr::from_bytes_with_nul_unchecked(s) }` (rule R45): the SAFETY CONTRACT of the std function - exactly one
/// NUL, at the end - is this function's precondition, so the `unsafe` block's justification is a proof obligation.
#[verifier::external_body]
pub fn cstr_from_bytes_with_nul_unchecked<'a>(s: &'a [u8]) -> (r: &'a CStr)
    requires s@.len() >= 1, s@[s@.len() - 1] == 0u8, forall|i: int| 0 <= i < s@.len() - 1 ==> s@[i] != 0u8,
    ensures r.b@ == s@,
{ unimplemented!() }
pub struct FromBytesWithNulError;
impl CStr {
    /// `CStr::from_bytes_with_nul` (the checked conversion; not used by the pinned code): Ok iff exactly one NUL, at the end.
    #[verifier::external_body]
    pub fn from_bytes_with_nul<'a>(s: &'a [u8]) -> (r: Result<&'a CStr, FromBytesWithNulError>)
        ensures r.is_ok() == (s@.len() >= 1 && s@[s@.len() - 1] == 0u8 && forall|i: int| 0 <= i < s@.len() - 1 ==> s@[i] != 0u8),
                r matches Ok(c) ==> c.b@ == s@,
    { unimplemented!() }
}
/// One openat(2) call as the OS answered it.
pub struct OpenEv { pub dirfd: i32, pub path: Seq<u8>, pub res: Option<int>, pub not_found: bool }
/// `should_gzip` (src/lib.rs; proved in unit `gz`): a function of the request headers.
pub uninterp spec fn sp_should_gzip(h: &HeaderMap) -> bool;
#[verifier::external_body]
pub fn should_gzip(h: &HeaderMap) -> (r: bool) ensures r == sp_should_gzip(h) { unimplemented!() }
//@item src/dir.rs :: struct FsDir rules=T_fsdir
impl FsDir {
    /// src/dir.rs `open_file`: `libc::openat(self.fd, path, O_RDONLY | O_CLOEXEC)` (unsafe FFI, ASSUMED): every call is
    /// appended to the ghost log `opens` with the directory descriptor and the exact byte string passed.
    #[verifier::external_body]
    pub fn open_file(&self, path: &CStr, opens: &mut Ghost<Seq<OpenEv>>) -> (r: Result<FileStub, Error>)
        ensures final(opens)@ == old(opens)@.push(OpenEv { dirfd: self.fd, path: path.b@, res: match r { Ok(f) => Some(f.id@), Err(_) => None },
                                                          not_found: r matches Err(e) && e.kind == ErrorKind::NotFound }),
    { unimplemented!() }
}

// ---- C19 for FsDir::get, written from the property statement ----
pub open spec fn plain_c(p: Seq<u8>) -> Seq<u8> { p.push(0u8) }
pub open spec fn gz_c(p: Seq<u8>) -> Seq<u8> { p + seq![0x2eu8, 0x67u8, 0x7au8, 0u8] }          // path ++ ".gz" NUL
pub open spec fn node_is(r: Result<Node, Error>, id: int, gz: bool, auto: bool) -> bool {
    r matches Ok(n) && n.file.id@ == id && n.metadata.of@ == id && n.is_gzipped == gz && n.auto_gzip == auto
}
/// The call `ev` was the last candidate: its file (if it could be opened and stat'ed) is the Node, otherwise the error.
pub open spec fn final_open(r: Result<Node, Error>, ev: OpenEv, gz: bool, auto: bool) -> bool {
    match ev.res { Some(id) => if sp_meta_ok(id) { node_is(r, id, gz, auto) } else { r is Err }, None => r is Err }
}
pub open spec fn get_post(this: FsDir, path: Seq<u8>, hdrs: &HeaderMap, log0: Seq<OpenEv>, log: Seq<OpenEv>, r: Result<Node, Error>) -> bool {
    let n0 = log0.len() as int;
    if path_refused(path) { r is Err && log == log0 }                                        // refused before any system call
    else if log.len() < n0 + 1 || !(forall|i: int| 0 <= i < n0 ==> log[i] == log0[i]) { false }         // earlier calls are untouched
    else {
        let ev0 = log[n0];
        if !(this.auto_gzip && sp_should_gzip(hdrs)) {
            log.len() == n0 + 1 && ev0.dirfd == this.fd && ev0.path == plain_c(path) && final_open(r, ev0, false, this.auto_gzip)
        } else {
            ev0.dirfd == this.fd && ev0.path == gz_c(path) && match ev0.res {
                Some(id) => if !sp_meta_ok(id) { log.len() == n0 + 1 && r is Err }
                            else if !sp_is_dir(id) { log.len() == n0 + 1 && node_is(r, id, true, this.auto_gzip) }          // the sibling exists and is not a directory
                            else { log.len() == n0 + 2 && log[n0 + 1].dirfd == this.fd && log[n0 + 1].path == plain_c(path) && final_open(r, log[n0 + 1], false, this.auto_gzip) },
                None => if ev0.not_found { log.len() == n0 + 2 && log[n0 + 1].dirfd == this.fd && log[n0 + 1].path == plain_c(path) && final_open(r, log[n0 + 1], false, this.auto_gzip) }
                        else { log.len() == n0 + 1 && r is Err },
            }
        }
    }
}
proof fn lemma_first_at_none(s: Seq<u8>, from: int, c: u8)
    requires 0 <= from, first_at(s, from, c) is None
    ensures forall|j: int| from <= j < s.len() ==> s[j] != c
    decreases s.len() - from
{ if from < s.len() { lemma_first_at_none(s, from + 1, c); } }

impl FsDir {
    //@fn src/dir.rs :: impl FsDir :: fn get add=opens props=C19 implicit=C19 rules=R45,R22,STD
    #[verifier::loop_isolation(false)]
    fn get(self: Arc<Self>, path: &[u8], req_hdrs: &HeaderMap, opens: &mut Ghost<Seq<OpenEv>>) -> (r: Result<Node, Error>)
        ensures /*@C19 #refuses_then_opens_exactly_the_named_file_or_its_gz_sibling*/ get_post(*self, path@, req_hdrs, old(opens)@, final(opens)@, r),
    //@body
    //@ at_start: let ghost log0 = opens@;
    //@ before "let mut buf = Vec::with_capacity": proof { assert(!path_refused(path@)); lemma_first_at_none(path@, 0, 0u8); }
    //@ after "buf.extend_from_slice(crate::lit::b_2e677a00());": proof { assert(buf@ =~= gz_c(path@)); }
    //@ after "buf.truncate(path_len);": proof { assert(buf@ =~= path@); }
    //@ after "buf.push(b'\\0');": proof { assert(buf@ =~= plain_c(path@)); }
    //@end
}

//@item src/dir.rs :: struct Node rules=T_node
impl Node {
    //@fn src/dir.rs :: impl Node :: fn encoding props=C19
    fn encoding(&self) -> (r: Option<&'static str>)
        ensures /*@C19 #encoding_is_gzip_iff_substituted*/ self.is_gzipped ==> (r matches Some(e) && e@ == "gzip"@), !self.is_gzipped ==> r.is_none(),
    //@body
    //@end

    //@fn src/dir.rs :: impl Node :: fn encoding_varies props=C19
    fn encoding_varies(&self) -> (r: bool)
        ensures /*@C19 #varies_iff_auto_gzip*/ r == self.auto_gzip,
    //@body
    //@end

    //@fn src/dir.rs :: impl Node :: fn add_encoding_headers props=C19
    fn add_encoding_headers(&self, hdrs: &mut HeaderMap)
        ensures /*@C19 #encoding_headers*/ final(hdrs).inserted@ =~= {
            let a = if self.is_gzipped { old(hdrs).inserted@.insert(HeaderName::CONTENT_ENCODING, HV::Static("gzip"@)) } else { old(hdrs).inserted@ };
            if self.auto_gzip { a.insert(HeaderName::VARY, HV::Static("accept-encoding"@)) } else { a } },
    //@body
    //@end
}

//@auto_helpers src/dir.rs rules=R22
//@lits
//@canary_false
} // verus!
fn main() {}
