// Unit `gz`: src/lib.rs should_gzip (C16, C17) over the opaque `str` primitives; parse_qvalue is a callee contract
// (its lexing of real strings is checked by the Kani unit K4, bounded).
#![feature(allocator_api)]
use vstd::prelude::*;
verus! {

//@include prelude/core.rs
//@include prelude/str.rs
//@include prelude/http.rs
use strs::*;
use http::{HeaderMap, HeaderName, HeaderValue};
use http::header;

pub assume_specification<T>[ Option::<T>::or ](a: Option<T>, b: Option<T>) -> (r: Option<T>)
    ensures r == (if a is Some { a } else { b });

/// RFC 7231 5.3.1 qvalue as thousandths (0..=1000); None = not a qvalue.  Callee contract of `parse_qvalue`.
pub mod qv {
    use vstd::prelude::*;
    use crate::strs::Str;
    pub uninterp spec fn sp_qvalue(s: Str) -> Option<u16>;
    pub broadcast axiom fn qvalue_range(s: Str) ensures (#[trigger] sp_qvalue(s)) matches Some(q) ==> q <= 1000;
}
use qv::sp_qvalue;
#[verifier::external_body]
fn parse_qvalue(s: Str) -> (r: Result<u16, ()>)
    ensures r.is_ok() == sp_qvalue(s).is_some(), r matches Ok(q) ==> Some(q) == sp_qvalue(s)
{ unimplemented!() }

// ---- C16 oracle, written from the statement over the lexical primitives ----
/// One list element: (coding, weight) or None if its weight is unparseable.
pub open spec fn element(qi: Str) -> Option<(Str, u16)> {
    match sp_split_once(qi, ';') {
        None => Some((sp_trim(qi), 1000u16)),
        Some((c, q)) => match sp_strip_prefix(sp_trim(q), "q="@) {
            None => None,
            Some(w) => match sp_qvalue(w) { None => None, Some(v) => Some((sp_trim(c), v)) },
        },
    }
}
pub struct Prefs { pub gzip: Option<u16>, pub identity: Option<u16>, pub star: Option<u16> }
/// Preferences after the first k elements (later elements override earlier ones); None = some weight was unparseable.
pub open spec fn prefs(es: Seq<Str>, k: int) -> Option<Prefs> decreases k {
    if k <= 0 { Some(Prefs { gzip: None, identity: None, star: None }) } else {
        match prefs(es, k - 1) {
            None => None,
            Some(p) => match element(es[k - 1]) {
                None => None,
                Some((coding, w)) =>
                    if sp_is(coding, "gzip"@) { Some(Prefs { gzip: Some(w), ..p }) }
                    else if sp_is(coding, "identity"@) { Some(Prefs { identity: Some(w), ..p }) }
                    else if sp_is(coding, "*"@) { Some(Prefs { star: Some(w), ..p }) }
                    else { Some(p) },
            },
        }
    }
}
/// gzip is chosen iff it is acceptable (listed or covered by `*`, non-zero quality) and not less preferred than identity,
/// where identity takes its own quality, else `*`'s, else counts as the least-preferred acceptable coding.
pub open spec fn prefers_gzip(p: Prefs) -> bool {
    let g: int = match p.gzip { Some(q) => q as int, None => match p.star { Some(q) => q as int, None => 0 } };
    let i: int = match p.identity { Some(q) => q as int, None => match p.star { Some(q) => q as int, None => 1 } };
    g > 0 && g >= i
}
pub open spec fn should_gzip_s(h: &HeaderMap) -> bool {
    if !h.m@.dom().contains(HeaderName::ACCEPT_ENCODING) { false } else {
        match http::sp_to_str(h.m@[HeaderName::ACCEPT_ENCODING].bytes@) {
            None => false,
            Some(s) => { let es = sp_split(s, ','); match prefs(es, es.len() as int) { None => false, Some(p) => prefers_gzip(p) } }
        }
    }
}
proof fn lemma_prefs_none(es: Seq<Str>, k: int, n: int)
    requires 0 <= k <= n, prefs(es, k) is None
    ensures prefs(es, n) is None
    decreases n - k
{ if k < n { lemma_prefs_none(es, k, n - 1); } }
broadcast use qv::qvalue_range;

//@fn src/lib.rs :: fn should_gzip props=C16,C17 implicit=C16 rules=R10i,STD
#[verifier::loop_isolation(false)]
pub fn should_gzip(headers: &HeaderMap) -> (r: bool)
    ensures /*@C16 #rfc7231_preference*/ r == should_gzip_s(headers),
//@body
//@ before "let mut it_ = parts;": let ghost es = sp_split(http::sp_to_str(v.bytes@).unwrap(), ',');
//@ loop 1: invariant it_.rest@.len() <= es.len(), it_.rest@ =~= es.subrange(es.len() - it_.rest@.len(), es.len() as int),
//@ | /*@C16 #inv_preferences_so_far*/ prefs(es, es.len() - it_.rest@.len()) == Some(Prefs { gzip: gzip_q, identity: identity_q, star: star_q }),
//@ | decreases it_.rest@.len(),
//@ after "loop {": let ghost k0 = es.len() - it_.rest@.len(); proof { if it_.rest@.len() > 0 { assert(it_.rest@[0] == es[k0]); } }
//@ before "return false;": proof { assert(prefs(es, k0 + 1) is None); lemma_prefs_none(es, k0 + 1, es.len() as int); }
//@ after "else { break };": proof { assert(qi == es[k0]); assert(it_.rest@ =~= es.subrange(k0 + 1, es.len() as int)); }
//@end

//@auto_helpers src/lib.rs
//@canary_false
} // verus!
fn main() {}
