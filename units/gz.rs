// Unit `gz`: src/lib.rs should_gzip and parse_qvalue (C16, C17) against RFC 7231 5.3.1 / 5.3.4 over the bytes of the
// header value (the Kani unit K4 re-checks parse_qvalue on the real `str` code, bounded).
#![feature(allocator_api)]
use vstd::prelude::*;
verus! {

//@include prelude/core.rs
//@include prelude/str.rs
//@include prelude/http.rs
use strs::*;
use http::{HeaderMap, HeaderName, HeaderValue};
use http::header;

pub assume_specification<T>[ Option::<T>::or ](a: Option<T>, b: Option<T>) -> (r: Option<T>)
    ensures r == (if a is Some { a } else { b });

// ---- RFC 7231 5.3.1 / 5.3.4 over the BYTES of the header value (written from the RFC and C16, not from the code) ----
//   Accept-Encoding = #( codings [ weight ] )      weight = OWS ";" OWS "q=" qvalue
//   qvalue = ( "0" [ "." 0*3DIGIT ] ) / ( "1" [ "." 0*3("0") ] )
pub open spec fn scale(n: int) -> int { if n == 1 { 100 } else if n == 2 { 10 } else { 1 } }
/// qvalue in thousandths (0..=1000); None = not a qvalue.
pub open spec fn qvalue_rfc(s: Seq<u8>) -> Option<u16> {
    if s.len() == 0 || s.len() > 5 || (s[0] != 0x30u8 && s[0] != 0x31u8) { None }
    else if s.len() == 1 { Some(if s[0] == 0x31u8 { 1000u16 } else { 0u16 }) }
    else if s[1] != 0x2eu8 { None }
    else {
        let f = s.subrange(2, s.len() as int);
        if !(forall|i: int| 0 <= i < f.len() ==> is_digit(#[trigger] f[i])) { None }
        else if s[0] == 0x31u8 { if forall|i: int| 0 <= i < f.len() ==> #[trigger] f[i] == 0x30u8 { Some(1000u16) } else { None } }
        else { Some((dec(f) * scale(f.len() as int)) as u16) }
    }
}
pub proof fn lemma_dec_small(d: Seq<u8>)
    requires d.len() <= 3, forall|i: int| 0 <= i < d.len() ==> is_digit(#[trigger] d[i])
    ensures dec(d) <= 999, d.len() <= 2 ==> dec(d) <= 99, d.len() <= 1 ==> dec(d) <= 9,
{
    reveal_with_fuel(dec, 5);
    if d.len() >= 1 { assert(is_digit(d[d.len() - 1])); let d1 = d.drop_last(); if d1.len() >= 1 { assert(d1[d1.len() - 1] == d[d.len() - 2]); assert(is_digit(d[d.len() - 2])); let d2 = d1.drop_last(); if d2.len() >= 1 { assert(d2[0] == d[0]); assert(is_digit(d[0])); assert(d2.drop_last().len() == 0); } } }
}
/// Every qvalue is within 0..=1000.
pub proof fn lemma_qvalue_range(s: Seq<u8>)
    ensures qvalue_rfc(s) matches Some(v) ==> v <= 1000,
{
    if s.len() >= 2 && s.len() <= 5 {
        let f = s.subrange(2, s.len() as int);
        if forall|i: int| 0 <= i < f.len() ==> is_digit(#[trigger] f[i]) { lemma_dec_small(f); }
    }
}

pub proof fn lemma_qv_shapes(s: Seq<u8>)
    ensures
        (s =~= seq![0x31u8] || s =~= seq![0x31u8, 0x2eu8] || s =~= seq![0x31u8, 0x2eu8, 0x30u8] || s =~= seq![0x31u8, 0x2eu8, 0x30u8, 0x30u8] || s =~= seq![0x31u8, 0x2eu8, 0x30u8, 0x30u8, 0x30u8]) ==> qvalue_rfc(s) == Some(1000u16),
        (s =~= seq![0x30u8] || s =~= seq![0x30u8, 0x2eu8]) ==> qvalue_rfc(s) == Some(0u16),
        (!(s =~= seq![0x31u8] || s =~= seq![0x31u8, 0x2eu8] || s =~= seq![0x31u8, 0x2eu8, 0x30u8] || s =~= seq![0x31u8, 0x2eu8, 0x30u8, 0x30u8] || s =~= seq![0x31u8, 0x2eu8, 0x30u8, 0x30u8, 0x30u8])
            && !(s =~= seq![0x30u8]) && !(s.len() >= 2 && s[0] == 0x30u8 && s[1] == 0x2eu8)) ==> qvalue_rfc(s) is None,
{
    reveal_with_fuel(dec, 2);
    if s.len() >= 2 && s.len() <= 5 && s[0] == 0x31u8 && s[1] == 0x2eu8 {
        let f = s.subrange(2, s.len() as int);
        if forall|i: int| 0 <= i < f.len() ==> #[trigger] f[i] == 0x30u8 {
            if f.len() >= 1 { assert(f[0] == s[2]); } if f.len() >= 2 { assert(f[1] == s[3]); } if f.len() >= 3 { assert(f[2] == s[4]); }
        }
        if s =~= seq![0x31u8, 0x2eu8, 0x30u8] || s =~= seq![0x31u8, 0x2eu8, 0x30u8, 0x30u8] || s =~= seq![0x31u8, 0x2eu8, 0x30u8, 0x30u8, 0x30u8] {
            assert forall|i: int| 0 <= i < f.len() implies #[trigger] f[i] == 0x30u8 by { assert(f[i] == s[i + 2]); }
            assert forall|i: int| 0 <= i < f.len() implies is_digit(#[trigger] f[i]) by { assert(f[i] == s[i + 2]); }
        }
    }
    if s =~= seq![0x30u8, 0x2eu8] { assert(s.subrange(2, 2).len() == 0); }
}

//@fn src/lib.rs :: fn parse_qvalue props=C16 implicit=C16 rules=R41,R19,R20,R7,STD
fn parse_qvalue(s: Str) -> (r: Result<u16, ()>)
    requires is_ascii(s.b()),
    ensures /*@C16 #grammatical_qvalues_get_their_rfc_value*/ qvalue_rfc(s.b()) matches Some(v) ==> r == Ok::<u16, ()>(v),
            /*@C16 #accepted_weights_are_within_0_1000*/ r matches Ok(q) ==> q <= 1000,
//@body
//@ at_start: proof { reveal_strlit("1"); reveal_strlit("1."); reveal_strlit("1.0"); reveal_strlit("1.00"); reveal_strlit("1.000"); reveal_strlit("0"); reveal_strlit("0."); lemma_qvalue_range(s.b()); lemma_qv_shapes(s.b()); assert(lit("1"@) =~= seq![0x31u8]); assert(lit("1."@) =~= seq![0x31u8, 0x2eu8]); assert(lit("1.0"@) =~= seq![0x31u8, 0x2eu8, 0x30u8]); assert(lit("1.00"@) =~= seq![0x31u8, 0x2eu8, 0x30u8, 0x30u8]); assert(lit("1.000"@) =~= seq![0x31u8, 0x2eu8, 0x30u8, 0x30u8, 0x30u8]); assert(lit("0"@) =~= seq![0x30u8]); assert(lit("0."@) =~= seq![0x30u8, 0x2eu8]); if starts_with_b(s.b(), lit("0."@)) { assert(s.b().subrange(0, 2)[0] == s.b()[0]); assert(s.b().subrange(0, 2)[1] == s.b()[1]); } else if s.b().len() >= 2 && s.b()[0] == 0x30u8 && s.b()[1] == 0x2eu8 { assert(s.b().subrange(0, 2) =~= lit("0."@)); } }
//@ before "let factor = match v.len() {": proof { let f = s.b().subrange(2, s.b().len() as int); assert(v.b() =~= f); if f.len() >= 1 && f[0] == 0x2bu8 { let g = f.subrange(1, f.len() as int); assert(g =~= s.b().subrange(3, s.b().len() as int)); if g.len() <= 3 && all_digits(g) { lemma_dec_small(g); } } else if f.len() <= 3 && all_digits(f) { lemma_dec_small(f); } }
//@end

// ---- C16 oracle, written from the statement over the bytes of the header value ----
/// One list element (the text between two commas): (coding, weight), or None if its weight is not `q=` qvalue (such a header
/// value is outside the grammar: C16 demands nothing for it).
pub open spec fn element_b(e: Seq<u8>) -> Option<(Seq<u8>, u16)> {
    match first_at(e, 0, 0x3bu8) {
        None => Some((trim_b(e, is_ows()), 1000u16)),
        Some(p) => {
            let w = trim_b(e.subrange(p + 1, e.len() as int), is_ows());
            if w.len() >= 2 && eq_nocase_b(w.subrange(0, 2), lit("q="@)) { match qvalue_rfc(w.subrange(2, w.len() as int)) { Some(v) => Some((trim_b(e.subrange(0, p), is_ows()), v)), None => None } } else { None }
        }
    }
}
pub open spec fn element(qi: Str) -> Option<(Str, u16)> { match element_b(qi.b()) { Some((c, w)) => Some((mk(c), w)), None => None } }
pub open spec fn q_lc() -> Seq<u8> { seq![0x71u8, 0x3du8] }
pub open spec fn q_uc() -> Seq<u8> { seq![0x51u8, 0x3du8] }
/// The two spellings of the ABNF literal "q=".
pub proof fn lemma_q_prefix()
    ensures forall|w: Seq<u8>| w.len() >= 2 ==> (#[trigger] eq_nocase_b(w.subrange(0, 2), q_lc()) <==> (starts_with_b(w, q_lc()) || starts_with_b(w, q_uc()))),
{
    assert forall|w: Seq<u8>| w.len() >= 2 implies (#[trigger] eq_nocase_b(w.subrange(0, 2), q_lc()) <==> (starts_with_b(w, q_lc()) || starts_with_b(w, q_uc()))) by {
        let u = w.subrange(0, 2);
        let q = q_lc();
        if eq_nocase_b(u, q) { assert(lower(u[0]) == lower(q[0])); assert(lower(u[1]) == lower(q[1])); assert(u[0] == 0x71u8 || u[0] == 0x51u8); assert(u[1] == 0x3du8);
            if u[0] == 0x71u8 { assert(u =~= q); } else { assert(u =~= q_uc()); } }
        if starts_with_b(w, q) { assert(u =~= q); }
        if starts_with_b(w, q_uc()) { assert(u =~= q_uc()); assert(lower(u[0]) == lower(q[0])); }
    }
}
/// On a header value (`HeaderValue::to_str`: visible ASCII and HTAB only) Rust's `trim()` removes exactly OWS.
pub proof fn lemma_trim_ws_is_ows(s: Seq<u8>)
    requires is_visible(s)
    ensures trim_b(s, is_ws()) == trim_b(s, is_ows()), is_visible(trim_b(s, is_ows())), is_ascii(trim_b(s, is_ows())), is_ascii(s),
{
    lemma_lead(s, is_ows(), 0); lemma_lead_eq(s, 0); lemma_trail_eq(s, s.len() as int, lead(s, is_ows(), 0));
    lemma_trail(s, is_ows(), s.len() as int, lead(s, is_ows(), 0));
}
pub proof fn lemma_lead_eq(s: Seq<u8>, from: int)
    requires is_visible(s), 0 <= from <= s.len()
    ensures lead(s, is_ws(), from) == lead(s, is_ows(), from)
    decreases s.len() - from
{ if from < s.len() { assert((0x20u8 <= s[from] && s[from] < 0x7fu8) || s[from] == 0x09u8); if is_ows()(s[from]) { lemma_lead_eq(s, from + 1); } } }
pub proof fn lemma_trail_eq(s: Seq<u8>, to: int, floor: int)
    requires is_visible(s), 0 <= floor <= to <= s.len()
    ensures trail(s, is_ws(), to, floor) == trail(s, is_ows(), to, floor)
    decreases to - floor
{ if floor < to { assert((0x20u8 <= s[to - 1] && s[to - 1] < 0x7fu8) || s[to - 1] == 0x09u8); if is_ows()(s[to - 1]) { lemma_trail_eq(s, to - 1, floor); } } }
pub proof fn lemma_split_visible(s: Seq<u8>, sep: u8)
    requires is_visible(s)
    ensures forall|k: int| 0 <= k < split_b(s, sep).len() ==> is_visible(#[trigger] split_b(s, sep)[k]),
    decreases s.len()
{
    lemma_first_at(s, 0, sep);
    if let Some(q) = first_at(s, 0, sep) {
        let rest = s.subrange(q + 1, s.len() as int);
        lemma_split_visible(rest, sep);
        assert forall|k: int| 0 <= k < split_b(s, sep).len() implies is_visible(#[trigger] split_b(s, sep)[k]) by {
            if k > 0 { assert(split_b(s, sep)[k] == split_b(rest, sep)[k - 1]); }
        }
    }
}
pub struct Prefs { pub gzip: Option<u16>, pub identity: Option<u16>, pub star: Option<u16> }
/// Preferences after the first k elements (later elements override earlier ones); None = some weight was unparseable.
pub open spec fn prefs(es: Seq<Str>, k: int) -> Option<Prefs> decreases k {
    if k <= 0 { Some(Prefs { gzip: None, identity: None, star: None }) } else {
        match prefs(es, k - 1) {
            None => None,
            Some(p) => match element(es[k - 1]) {
                None => None,
                Some((coding, w)) =>
                    // content-coding names are case-insensitive (RFC 7231 3.1.2.1), and so is the ABNF literal "q="
                    if sp_is_nocase(coding, "gzip"@) { Some(Prefs { gzip: Some(w), ..p }) }
                    else if sp_is_nocase(coding, "identity"@) { Some(Prefs { identity: Some(w), ..p }) }
                    else if sp_is(coding, "*"@) { Some(Prefs { star: Some(w), ..p }) }
                    else { Some(p) },
            },
        }
    }
}
/// gzip is chosen iff it is acceptable (listed or covered by `*`, non-zero quality) and not less preferred than identity,
/// where identity takes its own quality, else `*`'s, else counts as the least-preferred acceptable coding.
pub open spec fn prefers_gzip(p: Prefs) -> bool {
    let g: int = match p.gzip { Some(q) => q as int, None => match p.star { Some(q) => q as int, None => 0 } };
    let i: int = match p.identity { Some(q) => q as int, None => match p.star { Some(q) => q as int, None => 1 } };
    g > 0 && g >= i
}
/// C16: false when the header is absent (or not a string); for a grammatical value the stated preference.  A value with a
/// weight outside the qvalue grammar is not judged (the code ignores such a header; rejecting only the element would do too).
pub open spec fn should_gzip_ok(h: &HeaderMap, r: bool) -> bool {
    if !h.m@.dom().contains(HeaderName::ACCEPT_ENCODING) { !r } else {
        match http::sp_to_str(h.m@[HeaderName::ACCEPT_ENCODING].bytes@) {
            None => !r,
            Some(s) => { let es = sp_split(s, ','); match prefs(es, es.len() as int) { None => true, Some(p) => r == prefers_gzip(p) } }
        }
    }
}
proof fn lemma_prefs_none(es: Seq<Str>, k: int, n: int)
    requires 0 <= k <= n, prefs(es, k) is None
    ensures prefs(es, n) is None
    decreases n - k
{ if k < n { lemma_prefs_none(es, k, n - 1); } }

//@fn src/lib.rs :: fn should_gzip props=C16,C17 implicit=C16 rules=R10i,STD
#[verifier::loop_isolation(false)]
pub fn should_gzip(headers: &HeaderMap) -> (r: bool)
    ensures /*@C16 #rfc7231_preference*/ should_gzip_ok(headers, r),
//@body
//@ before "let mut it_ = parts;": let ghost es = sp_split(http::sp_to_str(v.bytes@).unwrap(), ','); proof { lemma_split_visible(v.bytes@, 0x2cu8); reveal_strlit("q="); reveal_strlit("Q="); lemma_q_prefix(); }
//@ loop 1: invariant it_.rest@.len() <= es.len(), it_.rest@ =~= es.subrange(es.len() - it_.rest@.len(), es.len() as int),
//@ | /*@C16 #inv_preferences_so_far*/ prefs(es, es.len() - it_.rest@.len()) matches Some(p) ==> p == (Prefs { gzip: gzip_q, identity: identity_q, star: star_q }),
//@ | decreases it_.rest@.len(),
//@ after "loop {": let ghost k0 = es.len() - it_.rest@.len(); proof { if it_.rest@.len() > 0 { assert(it_.rest@[0] == es[k0]); } }
//@ before "return false;": proof { assert(prefs(es, k0 + 1) is None); lemma_prefs_none(es, k0 + 1, es.len() as int); }
//@ after "else { break };": proof { assert(qi == es[k0]); assert(it_.rest@ =~= es.subrange(k0 + 1, es.len() as int)); assert(is_visible(split_b(v.bytes@, 0x2cu8)[k0])); lemma_trim_ws_is_ows(qi.b()); lemma_first_at(qi.b(), 0, 0x3bu8);
//@ | if let Some(p) = first_at(qi.b(), 0, 0x3bu8) { let c0 = qi.b().subrange(0, p); let q0 = qi.b().subrange(p + 1, qi.b().len() as int); lemma_trim_ws_is_ows(c0); lemma_trim_ws_is_ows(q0); lemma_qvalue_range(trim_b(q0, is_ows()).subrange(2, trim_b(q0, is_ows()).len() as int)); } }
//@end

//@auto_helpers src/lib.rs
//@canary_false
} // verus!
fn main() {}
