// Unit `chunker`: src/chunker.rs Reader / Writer (the machinery behind streaming_body), plus the composition lemmas
// for C08 (FIFO identity), C10 (no lost wake-up), C11 (abort / disconnect), C12 (hints), C20 (fused).
// Bodies are spliced in from /repo by lib/extract.py; everything else here is specification.
#![feature(allocator_api)]
use vstd::prelude::*;
use std::collections::VecDeque;
use std::task::Poll;
verus! {

//@include prelude/core.rs
//@include prelude/chunk.rs
use pre::*;
pub mod http_body { pub use crate::pre::SizeHint; }
pub mod mem { pub use std::mem::{take, replace}; }
broadcast use {ax::dflt_u64, ax::dflt_vec_u8, pre::chunk_axioms};

//@fn src/lib.rs :: fn as_u64 props=C12 rules=R24
fn as_u64(len: usize) -> (r: u64)
    ensures r == len,
//@body
//@end

// ---------------- extracted types (rule R4: Arc<Mutex<Shared<E>>> -> Shared<E>) ----------------
//@item src/chunker.rs :: struct Shared rules=T_chunk
//@item src/chunker.rs :: enum SharedState rules=T_chunk
//@item src/chunker.rs :: struct Reader rules=T_chunk
//@item src/chunker.rs :: struct Writer rules=T_chunk

// ---------------- specification vocabulary ----------------
spec fn total(q: Seq<Vec<u8>>) -> nat decreases q.len() {
    if q.len() == 0 { 0 } else { total(q.drop_last()) + q.last()@.len() }
}
spec fn flat(q: Seq<Vec<u8>>) -> Seq<u8> decreases q.len() {
    if q.len() == 0 { Seq::empty() } else { flat(q.drop_last()) + q.last()@ }
}
proof fn lemma_push(q: Seq<Vec<u8>>, v: Vec<u8>)
    ensures total(q.push(v)) == total(q) + v@.len(), flat(q.push(v)) == flat(q) + v@
{ assert(q.push(v).drop_last() =~= q); }
proof fn lemma_pop_front(q: Seq<Vec<u8>>)
    requires q.len() > 0
    ensures total(q) == q[0]@.len() + total(q.subrange(1, q.len() as int)), flat(q) =~= q[0]@ + flat(q.subrange(1, q.len() as int))
    decreases q.len()
{
    if q.len() == 1 { assert(q.drop_last() =~= Seq::<Vec<u8>>::empty()); assert(q.subrange(1, 1) =~= Seq::<Vec<u8>>::empty()); }
    else {
        lemma_pop_front(q.drop_last());
        assert(q.drop_last().subrange(1, q.len() - 1) =~= q.subrange(1, q.len() as int).drop_last());
        assert(q.subrange(1, q.len() as int).last() == q.last());
        assert(q.drop_last()[0] == q[0]);
    }
}
proof fn lemma_total_empty(q: Seq<Vec<u8>>)
    requires forall|i: int| 0 <= i < q.len() ==> (#[trigger] q[i])@.len() > 0
    ensures total(q) == 0 <==> q.len() == 0
    decreases q.len()
{ if q.len() > 0 { lemma_total_empty(q.drop_last()); assert(q.last() == q[q.len() - 1]); } }

impl<E> Shared<E> {
    /// Representation invariant of the shared state.
    spec fn wf(&self) -> bool {
        match self.state {
            SharedState::Ok { ready, ready_bytes, writer_dropped } => ready_bytes == total(ready@) && forall|i: int| 0 <= i < ready@.len() ==> (#[trigger] ready@[i])@.len() > 0,
            _ => true,
        }
    }
    spec fn is_ok(&self) -> bool { self.state is Ok }
    spec fn queue(&self) -> Seq<Vec<u8>> { match self.state { SharedState::Ok { ready, .. } => ready@, _ => Seq::empty() } }
    spec fn wdropped(&self) -> bool { match self.state { SharedState::Ok { writer_dropped, .. } => writer_dropped, _ => false } }
    /// Something is there for the consumer: a chunk, the end, or an error (C10).
    spec fn avail(&self) -> bool {
        match self.state { SharedState::Ok { ready, writer_dropped, .. } => ready@.len() > 0 || writer_dropped, _ => true }
    }
    spec fn waker_id(&self) -> Option<u64> { match self.waker { Some(w) => Some(w.id), None => None } }
    /// Arc::clone of the handle: both handles denote the same protected value (rule R4).
    #[verifier::external_body]
    fn clone(&self) -> (r: Self) ensures r == *self { unimplemented!() }
}

/// Relation exported by Reader::poll_next for the wake-up argument (C10): `pending` = the result was Poll::Pending.
spec fn poll_rel<E>(a: Shared<E>, w: u64, b: Shared<E>, pending: bool) -> bool {
    if pending { !a.avail() && b.is_ok() && b.queue() =~= a.queue() && !b.wdropped() && b.waker_id() == Some(w) }
    else { a.avail() && b.waker_id() == a.waker_id() }
}
/// Relation exported by flush_helper / abort (C10): `taken` is the waker that is woken after the critical section.
spec fn prod_rel<E>(a: Shared<E>, b: Shared<E>, taken: Option<u64>) -> bool {
    ||| (b == a && taken.is_none())
    ||| (b.waker.is_none() && taken == a.waker_id())
}
/// The same without the existential: what a producer critical section plus its wake does to (shared state, wake log).
spec fn prod_step<E>(a: Shared<E>, b: Shared<E>, log0: Seq<u64>, log1: Seq<u64>) -> bool {
    ||| (b == a && log1 == log0)
    ||| (b.waker.is_none() && log1 == log_after(log0, a.waker_id()))
}
/// A fingerprint of the shared state (uninterpreted: equal states have equal fingerprints, nothing else is known).
pub uninterp spec fn fp<E>(s: &Shared<E>) -> int;
/// C10: every wake-up this call issued saw the shared state the call leaves behind - a wake-up is never issued BEFORE the
/// state it announces is in place (the system step `prod_step` below treats 'critical section, then wake' as one step).
spec fn wakes_see<E>(seen0: Seq<int>, seen1: Seq<int>, fin: &Shared<E>) -> bool {
    seen1.len() >= seen0.len() && forall|i: int| seen0.len() <= i < seen1.len() ==> #[trigger] seen1[i] == fp(fin)
}
spec fn log_after(old_log: Seq<u64>, taken: Option<u64>) -> Seq<u64> {
    match taken { Some(id) => old_log.push(id), None => old_log }
}

impl<D: ChunkData, E> Reader<D, E> {
    //@fn src/chunker.rs :: impl Reader :: fn size_hint props=C12 rules=R4,STD
    fn size_hint(&self) -> (r: SizeHint)
        requires self.shared.wf(),
        ensures
            /*@C12 #hint_lower_is_queued*/ self.shared.is_ok() ==> r.lower == total(self.shared.queue()),
            /*@C12 #hint_upper_only_when_writer_gone*/ self.shared.is_ok() ==> r.upper == (if self.shared.wdropped() { Some(r.lower) } else { None::<u64> }),
            /*@C12 #hint_default_otherwise*/ !self.shared.is_ok() ==> r.lower == 0 && r.upper.is_none(),
    //@body
    //@end

    //@fn src/chunker.rs :: impl Reader :: fn is_end_stream props=C11,C12 rules=R4,STD
    fn is_end_stream(&self) -> (r: bool)
        requires self.shared.wf(),
        ensures
            /*@C11,C12 #eos_meaning*/ r == match self.shared.state {
                SharedState::Ok { ready, writer_dropped, .. } => ready@.len() == 0 && writer_dropped,
                SharedState::Err(_) => false,
                SharedState::ReaderFused => true,
            },
    //@body
    //@ at_start: proof { lemma_total_empty(self.shared.queue()); }
    //@end

    //@fn src/chunker.rs :: impl Stream for Reader :: fn poll_next props=C08,C10,C11,C12,C20 implicit=C08,C20 rules=R1,R4,R5,STD
    fn poll_next(&mut self, cx: &mut Context) -> (r: Poll<Option<Result<D, E>>>)
        requires old(self).shared.wf(),
        ensures
            /*@C08,C10,C11,C12,C20 #wf_preserved*/ final(self).shared.wf(),
            /*@C08,C11,C12,C20 #poll_cases*/ match old(self).shared.state {
                SharedState::Ok { ready, ready_bytes, writer_dropped } =>
                    if ready@.len() > 0 {
                        (r matches Poll::Ready(Some(Ok(d))) && d.bytes() == ready@[0]@ && d.bytes().len() > 0)
                        && (if ready@.len() > 1 || !writer_dropped { final(self).shared.is_ok() && final(self).shared.queue() =~= ready@.subrange(1, ready@.len() as int) && final(self).shared.wdropped() == writer_dropped }
                            else { final(self).shared.state is ReaderFused })
                    } else if !writer_dropped {
                        r is Pending && final(self).shared.is_ok() && final(self).shared.queue() =~= ready@ && !final(self).shared.wdropped()
                    } else {
                        r matches Poll::Ready(None) && final(self).shared.state is ReaderFused
                    },
                SharedState::Err(e) => r matches Poll::Ready(Some(Err(e2))) && e2 == e && final(self).shared.state is ReaderFused,
                SharedState::ReaderFused => r matches Poll::Ready(None) && final(self).shared.state is ReaderFused,
            },
            /*@C10 #poll_rel*/ poll_rel(old(self).shared, old(cx).w.id, final(self).shared, r is Pending),
    //@body
    //@ before "if let Some(c) = ready.pop_front()": let ghost q0 = ready@;
    //@ after "if let Some(c) = ready.pop_front() {": proof { lemma_pop_front(q0); }
    //@end

    // C11 (disconnect): dropping the response body must tell the writer.  The contract requires a Drop impl.
    //@fn src/chunker.rs :: impl Drop for Reader :: fn drop props=C11 rules=R4,STD missing=violation what=dropping_the_body_leaves_the_shared_state_Ok:_the_writer_is_never_told_and_the_queue_is_never_released
    fn drop(&mut self)
        requires old(self).shared.wf(),
        ensures
            /*@C11 #reader_drop_tells_writer*/ !final(self).shared.is_ok(),
            /*@C11 #reader_drop_releases_queue*/ final(self).shared.queue().len() == 0,
            /*@C11 #reader_drop_wf*/ final(self).shared.wf(),
    //@body
    //@end
}

impl<D: ChunkData, E> Writer<D, E> {
    spec fn wf(&self) -> bool {
        &&& self.shared.wf()
        &&& self.cap > 0
        &&& (cap_of(&self.buf) == 0 ==> self.buf@.len() == 0)
        &&& (cap_of(&self.buf) != 0 ==> cap_of(&self.buf) >= self.cap)
        &&& (self.shared.is_ok() && cap_of(&self.buf) != 0 ==> self.buf@.len() < cap_of(&self.buf))
        &&& !self.shared.wdropped()
    }
    /// Weaker invariant at the entry of flush (called by write with a full buffer).
    spec fn wf_full_ok(&self) -> bool {
        &&& self.shared.wf()
        &&& self.cap > 0
        &&& (cap_of(&self.buf) == 0 ==> self.buf@.len() == 0)
        &&& (cap_of(&self.buf) != 0 ==> cap_of(&self.buf) >= self.cap)
        &&& self.buf@.len() <= cap_of(&self.buf)
        &&& !self.shared.wdropped()
    }
    /// Queue memory is bounded by the address space (explicit, memory-bounded assumption).
    spec fn fits(&self, more: nat) -> bool {
        self.shared.is_ok() ==> total(self.shared.queue()) + self.buf@.len() + more <= usize::MAX
    }

    //@fn src/chunker.rs :: impl Writer :: fn with_chunk_size props=C08,C17 implicit=C17 rules=R4,R5,R18,T_chunk,STD
    fn with_chunk_size(cap: usize) -> (r: (Self, Reader<D, E>))
        requires cap > 0,
        ensures
            /*@C08 #new_writer_wf*/ r.0.wf() && r.0.cap == cap && r.0.buf@.len() == 0,
            /*@C08 #new_shared_same*/ r.0.shared == r.1.shared,
            /*@C08 #new_shared_empty*/ r.1.shared.is_ok() && r.1.shared.queue().len() == 0 && !r.1.shared.wdropped() && r.1.shared.waker.is_none(),
    //@body
    //@end

    //@fn src/chunker.rs :: impl Writer :: fn abort add=log,seen props=C10,C11 rules=R4,R6,STD
    fn abort(&mut self, error: E, log: &mut Ghost<Seq<u64>>, seen: &mut Ghost<Seq<int>>)
        requires old(self).shared.wf(),
        ensures
            /*@C11 #abort_sets_error*/ old(self).shared.is_ok() ==> (final(self).shared.state matches SharedState::Err(e) && e == error),
            /*@C11 #abort_noop_unless_ok*/ !old(self).shared.is_ok() ==> final(self).shared == old(self).shared && final(log)@ == old(log)@,
            /*@C10,C11 #abort_wakes*/ old(self).shared.is_ok() ==> (final(self).shared.waker.is_none() && final(log)@ == log_after(old(log)@, old(self).shared.waker_id())),
            /*@C10 #abort_prod_rel*/ prod_step(old(self).shared, final(self).shared, old(log)@, final(log)@),
            /*@C10 #abort_wakes_after_publishing*/ wakes_see(old(seen)@, final(seen)@, &final(self).shared),
            /*@C11 #abort_frame*/ final(self).buf == old(self).buf && final(self).cap == old(self).cap && final(self).shared.wf(),
    //@body
    //@end

    //@fn src/chunker.rs :: impl Writer :: fn flush_helper add=log,seen props=C08,C09,C10,C11 implicit=C08 rules=R4,R6,STD
    fn flush_helper(&mut self, dropping: bool, log: &mut Ghost<Seq<u64>>, seen: &mut Ghost<Seq<int>>) -> (r: Result<(), ()>)
        requires old(self).wf_full_ok(), old(self).fits(0),
        ensures
            /*@C08,C10,C11 #fh_wf*/ (!dropping ==> final(self).wf_full_ok()) && ((old(self).shared.is_ok() && !dropping) ==> final(self).wf()) && final(self).cap == old(self).cap && final(self).shared.wf(),
            /*@C08 #fh_noop_when_empty*/ (old(self).shared.is_ok() && old(self).buf@.len() == 0 && !dropping) ==> (r.is_ok() && *final(self) == *old(self) && final(log)@ == old(log)@),
            /*@C08,C09 #fh_publishes*/ (old(self).shared.is_ok() && !(old(self).buf@.len() == 0 && !dropping)) ==> (
                r.is_ok() && final(self).shared.is_ok() && final(self).buf@.len() == 0
                && final(self).shared.queue() =~= (if old(self).buf@.len() > 0 { old(self).shared.queue().push(old(self).buf) } else { old(self).shared.queue() })
                && final(self).shared.wdropped() == dropping),
            /*@C10 #fh_wakes_whoever_waits*/ (old(self).shared.is_ok() && !(old(self).buf@.len() == 0 && !dropping)) ==> (
                final(self).shared.waker.is_none()
                && final(log)@ == log_after(old(log)@, old(self).shared.waker_id())),
            /*@C11 #fh_error_when_reader_gone*/ (!old(self).shared.is_ok() && old(self).buf@.len() > 0) ==> r.is_err(),
            /*@C11 #fh_dead_frame*/ !old(self).shared.is_ok() ==> (final(self).shared == old(self).shared && final(log)@ == old(log)@ && final(self).buf == old(self).buf),
            /*@C10 #fh_prod_rel*/ prod_step(old(self).shared, final(self).shared, old(log)@, final(log)@),
            /*@C10 #fh_wakes_after_publishing*/ wakes_see(old(seen)@, final(seen)@, &final(self).shared),
    //@body
    //@ at_start: proof { if old(self).shared.is_ok() { lemma_push(old(self).shared.queue(), old(self).buf); } }
    //@end

    //@fn src/chunker.rs :: impl Write for Writer :: fn flush add=log,seen props=C08,C09,C10,C11 implicit=C08 rules=R6,R7,STD
    fn flush(&mut self, log: &mut Ghost<Seq<u64>>, seen: &mut Ghost<Seq<int>>) -> (r: io::Result<()>)
        requires old(self).wf_full_ok(), old(self).fits(0),
        ensures
            /*@C08,C11 #flush_wf*/ final(self).wf_full_ok() && (old(self).shared.is_ok() ==> final(self).wf()) && final(self).cap == old(self).cap,
            /*@C08,C09 #flush_makes_available*/ old(self).shared.is_ok() ==> (r.is_ok() && final(self).buf@.len() == 0 && final(self).shared.is_ok()
                && flat(final(self).shared.queue()) =~= flat(old(self).shared.queue()) + old(self).buf@
                && final(self).shared.wdropped() == old(self).shared.wdropped()),
            /*@C10 #flush_wakes*/ (old(self).shared.is_ok() && old(self).buf@.len() > 0) ==> (final(self).shared.waker.is_none() && final(log)@ == log_after(old(log)@, old(self).shared.waker_id())),
            /*@C11 #flush_error_when_reader_gone*/ (!old(self).shared.is_ok() && old(self).buf@.len() > 0) ==> r.is_err(),
            /*@C10 #flush_prod_rel*/ prod_step(old(self).shared, final(self).shared, old(log)@, final(log)@),
            /*@C10 #flush_wakes_after_publishing*/ wakes_see(old(seen)@, final(seen)@, &final(self).shared),
    //@body
    //@ at_start: proof { if old(self).buf@.len() > 0 { lemma_push(old(self).shared.queue(), old(self).buf); } }
    //@end

    //@fn src/chunker.rs :: impl Write for Writer :: fn write add=log,seen props=C08,C09,C10,C11 implicit=C08 rules=R5,R6,R18,STD
    fn write(&mut self, buf: &[u8], log: &mut Ghost<Seq<u64>>, seen: &mut Ghost<Seq<int>>) -> (r: io::Result<usize>)
        requires old(self).wf(), old(self).fits(buf@.len()),
        ensures
            /*@C08,C11 #write_wf*/ final(self).wf_full_ok() && (r.is_ok() ==> final(self).wf()) && final(self).cap == old(self).cap,
            /*@C08,C09 #write_accepts_prefix*/ r matches Ok(k) ==> (k <= buf@.len()
                && flat(final(self).shared.queue()) + final(self).buf@ =~= flat(old(self).shared.queue()) + old(self).buf@ + buf@.subrange(0, k as int)),
            /*@C08,C09 #write_progress*/ r matches Ok(k) ==> (buf@.len() > 0 ==> k > 0),
            /*@C08,C09 #write_live_never_fails*/ old(self).shared.is_ok() ==> r.is_ok(),
            /*@C10 #write_prod_rel*/ prod_step(old(self).shared, final(self).shared, old(log)@, final(log)@),
            /*@C10 #write_wakes_after_publishing*/ wakes_see(old(seen)@, final(seen)@, &final(self).shared),
            /*@C11 #write_error_when_chunk_completes_and_reader_gone*/ (!old(self).shared.is_ok() && cap_of(&old(self).buf) != 0 && old(self).buf@.len() + buf@.len() >= cap_of(&old(self).buf)) ==> r.is_err(),
    //@body
    //@end

    //@fn src/chunker.rs :: impl Drop for Writer :: fn drop add=log,seen props=C08,C09,C10 implicit=C08 rules=R6,STD
    fn drop(&mut self, log: &mut Ghost<Seq<u64>>, seen: &mut Ghost<Seq<int>>)
        requires old(self).wf_full_ok(), old(self).fits(0),
        ensures
            /*@C08,C09 #drop_flushes_and_marks_end*/ old(self).shared.is_ok() ==> (final(self).shared.is_ok() && final(self).shared.wdropped()
                && flat(final(self).shared.queue()) =~= flat(old(self).shared.queue()) + old(self).buf@),
            /*@C10 #drop_wakes*/ old(self).shared.is_ok() ==> (final(self).shared.waker.is_none() && final(log)@ == log_after(old(log)@, old(self).shared.waker_id())),
            /*@C10 #drop_prod_rel*/ prod_step(old(self).shared, final(self).shared, old(log)@, final(log)@),
            /*@C10 #drop_wakes_after_publishing*/ wakes_see(old(seen)@, final(seen)@, &final(self).shared),
    //@body
    //@ at_start: proof { if old(self).buf@.len() > 0 { lemma_push(old(self).shared.queue(), old(self).buf); } }
    //@end
}


// ----------------------------------------------------------------------------------------------
// Composition layer (L).  Pure specification over the relations exported by the contracts above.

/// C08 system view: bytes accepted by `write` so far, bytes handed to the consumer so far, the shared state, the
/// writer's private buffer.
pub struct Fifo<E> { pub accepted: Seq<u8>, pub delivered: Seq<u8>, pub sh: Shared<E>, pub wbuf: Seq<u8> }
spec fn fifo_inv<E>(s: Fifo<E>) -> bool { s.sh.is_ok() ==> s.delivered + flat(s.sh.queue()) + s.wbuf =~= s.accepted }

//@lemma props=C08,C09 lemma_fifo
/// Each operation, as specified by its contract, preserves `delivered ++ queued ++ buffered == accepted`; hence for
/// every history (any interleaving of critical sections) the consumer sees exactly the accepted bytes, once, in order.
proof fn lemma_fifo_write<E>(s: Fifo<E>, t: Fifo<E>, data: Seq<u8>, k: int)
    requires fifo_inv(s), s.sh.is_ok(), t.sh.is_ok(), 0 <= k <= data.len(),
        // Writer::write #write_accepts_prefix
        flat(t.sh.queue()) + t.wbuf =~= flat(s.sh.queue()) + s.wbuf + data.subrange(0, k),
        t.accepted == s.accepted + data.subrange(0, k), t.delivered == s.delivered,
    ensures /*@C08,C09 #fifo_write*/ fifo_inv(t),
{
    assert(t.delivered + flat(t.sh.queue()) + t.wbuf =~= t.delivered + (flat(t.sh.queue()) + t.wbuf));
    assert(s.delivered + flat(s.sh.queue()) + s.wbuf + data.subrange(0, k) =~= s.delivered + (flat(s.sh.queue()) + s.wbuf + data.subrange(0, k)));
}
proof fn lemma_fifo_flush<E>(s: Fifo<E>, t: Fifo<E>)
    requires fifo_inv(s), s.sh.is_ok(), t.sh.is_ok(),
        // Writer::flush #flush_makes_available / Writer::drop #drop_flushes_and_marks_end
        flat(t.sh.queue()) =~= flat(s.sh.queue()) + s.wbuf, t.wbuf.len() == 0,
        t.accepted == s.accepted, t.delivered == s.delivered,
    ensures /*@C08,C09 #fifo_flush*/ fifo_inv(t),
            /*@C08,C09 #flushed_bytes_are_queued*/ t.delivered + flat(t.sh.queue()) =~= t.accepted,
{
    assert(t.delivered + flat(t.sh.queue()) + t.wbuf =~= t.delivered + flat(t.sh.queue()));
    assert(s.delivered + flat(s.sh.queue()) + s.wbuf =~= s.delivered + (flat(s.sh.queue()) + s.wbuf));
}
proof fn lemma_fifo_poll<E>(s: Fifo<E>, t: Fifo<E>, d: Seq<u8>)
    requires fifo_inv(s), s.sh.is_ok(), s.sh.queue().len() > 0,
        // Reader::poll_next #poll_cases, data case
        d == s.sh.queue()[0]@, t.sh.is_ok() ==> t.sh.queue() =~= s.sh.queue().subrange(1, s.sh.queue().len() as int),
        t.delivered == s.delivered + d, t.accepted == s.accepted, t.wbuf == s.wbuf,
    ensures /*@C08,C09 #fifo_poll*/ fifo_inv(t),
            /*@C08,C09 #fifo_poll_prefix*/ t.delivered + flat(s.sh.queue().subrange(1, s.sh.queue().len() as int)) + t.wbuf =~= t.accepted,
{
    lemma_pop_front(s.sh.queue());
    let rest = flat(s.sh.queue().subrange(1, s.sh.queue().len() as int));
    assert(s.delivered + (d + rest) + s.wbuf =~= s.delivered + d + rest + s.wbuf);
}
proof fn lemma_fifo_end<E>(s: Fifo<E>)
    requires fifo_inv(s), s.sh.is_ok(), s.sh.queue().len() == 0, s.wbuf.len() == 0,
    ensures /*@C08,C09 #clean_end_means_all_delivered*/ s.delivered =~= s.accepted,
{
    assert(flat(s.sh.queue()) =~= Seq::<u8>::empty());
}
//@endlemma

/// C10 system view at critical-section and wake granularity: the shared state, the waker id of the parked consumer
/// task (if it returned Pending and has not been woken since), and the wake-ups that were issued but not yet delivered.
pub struct Sys<E> { pub sh: Shared<E>, pub parked: Option<u64>, pub pend: Seq<u64> }
spec fn sys_inv<E>(s: Sys<E>) -> bool {
    s.parked matches Some(p) ==> ((s.sh.waker_id() == Some(p) && !s.sh.avail()) || s.pend.contains(p))
}
spec fn sys_step<E>(s: Sys<E>, t: Sys<E>) -> bool {
    // consumer critical section (Reader::poll_next #poll_rel), with any waker id w (fresh or reused, spurious or not)
    ||| (exists|w: u64, pending: bool| poll_rel(s.sh, w, t.sh, pending) && t.pend == s.pend && t.parked == (if pending { Some(w) } else { None::<u64> }))
    // producer critical section followed by its wake (flush_helper / flush / write / drop / abort: #.._prod_rel)
    ||| (prod_step(s.sh, t.sh, s.pend, t.pend) && t.parked == s.parked)
    // delivery of one pending wake-up: the woken task is no longer parked (it will poll again)
    ||| (exists|i: int| 0 <= i < s.pend.len() && t.sh == s.sh && t.pend == s.pend.remove(i) && t.parked == (if s.parked == Some(s.pend[i]) { None::<u64> } else { s.parked }))
}

//@lemma props=C10 lemma_no_lost_wakeup
proof fn lemma_wakeup_inductive<E>(s: Sys<E>, t: Sys<E>)
    requires sys_inv(s), sys_step(s, t),
    ensures /*@C10 #wakeup_invariant_inductive*/ sys_inv(t),
{
    if let Some(p) = t.parked {
        if exists|i: int| 0 <= i < s.pend.len() && t.sh == s.sh && t.pend == s.pend.remove(i) && t.parked == (if s.parked == Some(s.pend[i]) { None::<u64> } else { s.parked }) {
            let i = choose|i: int| 0 <= i < s.pend.len() && t.sh == s.sh && t.pend == s.pend.remove(i) && t.parked == (if s.parked == Some(s.pend[i]) { None::<u64> } else { s.parked });
            assert(s.parked == Some(p) && s.pend[i] != p);
            if s.pend.contains(p) {
                let j = choose|j: int| 0 <= j < s.pend.len() && s.pend[j] == p;
                assert(j != i);
                if j < i { assert(t.pend[j] == p); } else { assert(t.pend[j - 1] == p); }
            }
        } else if prod_step(s.sh, t.sh, s.pend, t.pend) && t.parked == s.parked {
            if s.pend.contains(p) {
                let j = choose|j: int| 0 <= j < s.pend.len() && s.pend[j] == p;
                if t.pend == s.pend { } else { assert(t.pend[j] == p); }
            } else if !(t.sh == s.sh && t.pend == s.pend) {
                assert(s.sh.waker_id() == Some(p));
                assert(t.pend == s.pend.push(p));
                assert(t.pend[s.pend.len() as int] == p);
            }
        } else {
        }
    }
}
/// Safety consequence: a parked consumer for which something is available always has a wake-up in flight.
proof fn lemma_no_lost_wakeup<E>(s: Sys<E>)
    requires sys_inv(s), s.parked is Some, s.sh.avail(),
    ensures /*@C10 #no_lost_wakeup*/ s.pend.contains(s.parked.unwrap()),
{}
/// Initial state (Writer::with_chunk_size): nobody parked.
proof fn lemma_wakeup_init<E>(s: Sys<E>)
    requires s.parked is None,
    ensures /*@C10 #wakeup_invariant_initial*/ sys_inv(s),
{}
//@endlemma

//@auto_helpers src/chunker.rs rules=R4,T_chunk
//@canary_false
} // verus!
fn main() {}
