// Unit `streams`: ExactLenStream (src/body.rs), MultipartStream (src/serving.rs), BodyStream/Body dispatch.
// Bodies are spliced in from /repo by lib/extract.py; everything else here is specification.
#![feature(allocator_api)]
use vstd::prelude::*;
use std::task::Poll;
use std::ops::Range;
verus! {

//@include prelude/core.rs
//@include prelude/stream.rs
use pre::*;
pub mod http_body { pub use crate::pre::SizeHint; pub use crate::pre::Frame; }
broadcast use {ax::dflt_u64, ax::dflt_vec_u8, pre::data_axioms};

// ----------------------------------------------------------------------------------------------
// src/lib.rs: as_u64
//@fn src/lib.rs :: fn as_u64 props=C01,C12 rules=R24
fn as_u64(len: usize) -> (r: u64)
    ensures r == len,
//@body
//@end

// ----------------------------------------------------------------------------------------------
// src/body.rs: error types, ExactLenStream
//@item src/body.rs :: struct StreamTooShortError
//@item src/body.rs :: struct StreamTooLongError
impl StdError for StreamTooShortError {}
impl StdError for StreamTooLongError {}

#[verifier::reject_recursive_types(D)]
#[verifier::reject_recursive_types(E)]
//@item src/body.rs :: struct ExactLenStream rules=T_stream

/// Strongest postcondition of one poll of an ExactLenStream (the table of DESIGN.md section 3, "V-exact"):
/// `item` is what the entity's stream produced, `rem`/`rem2` the bytes still owed before/after.
pub open spec fn exact_rel<D: Buf, E>(rem: u64, item: Poll<Option<Result<D, E>>>, r: Poll<Option<Result<D, E>>>, rem2: u64) -> bool {
    match item {
        Poll::Ready(Some(Ok(d))) =>
            if d.bytes().len() <= rem { r == item && rem2 == rem - d.bytes().len() }
            else { r matches Poll::Ready(Some(Err(_))) && rem2 == 0 },
        Poll::Ready(Some(Err(e))) => r == item && rem2 == rem,
        Poll::Ready(None) =>
            if rem != 0 { r matches Poll::Ready(Some(Err(_))) && rem2 == 0 }
            else { r == item && rem2 == 0 },
        Poll::Pending => r == item && rem2 == rem,
    }
}

/// C07 projection: a short, over-long or failing entity stream surfaces as an error.
pub open spec fn exact_faults<D: Buf, E>(rem: u64, item: Poll<Option<Result<D, E>>>, r: Poll<Option<Result<D, E>>>) -> bool {
    &&& (item matches Poll::Ready(Some(Err(_))) ==> r matches Poll::Ready(Some(Err(_))))
    &&& ((item matches Poll::Ready(None) && rem != 0) ==> r matches Poll::Ready(Some(Err(_))))
    &&& (item matches Poll::Ready(Some(Ok(d))) ==> (d.bytes().len() > rem ==> r matches Poll::Ready(Some(Err(_)))))
    // a clean end is only ever reported when the entity's stream itself has ended (and everything was delivered): while the
    // stream is merely pending, a failure or surplus data may still come, and must not be cut off by an early end
    &&& (r matches Poll::Ready(None) ==> (item matches Poll::Ready(None) && rem == 0))
}
/// C02 projection: a data frame is the entity's chunk, unchanged.
pub open spec fn exact_identity<D: Buf, E>(item: Poll<Option<Result<D, E>>>, r: Poll<Option<Result<D, E>>>) -> bool {
    r matches Poll::Ready(Some(Ok(_))) ==> r == item
}
/// C02 projection, other direction: a chunk that fits into what is still owed is passed on (not swallowed, delayed or
/// replaced by an error), and a stream that is merely pending stays pending.
pub open spec fn exact_passes_on<D: Buf, E>(rem: u64, item: Poll<Option<Result<D, E>>>, r: Poll<Option<Result<D, E>>>) -> bool {
    &&& (item matches Poll::Ready(Some(Ok(d))) && d.bytes().len() <= rem ==> r == item)
    &&& (item is Pending ==> r is Pending)
}
/// C20 projection: nothing but the end comes out once everything was delivered and the entity stream has ended.
pub open spec fn exact_stays_ended<D: Buf, E>(rem: u64, item: Poll<Option<Result<D, E>>>, r: Poll<Option<Result<D, E>>>) -> bool {
    (rem == 0 && item matches Poll::Ready(None)) ==> r matches Poll::Ready(None)
}

impl<D: Buf, E: FromBoxError> ExactLenStream<D, E> {
    //@fn src/body.rs :: impl ExactLenStream :: fn new props=C01,C02,C07,C12 rules=T_stream
    fn new(len: u64, stream: Inner<D, E>) -> (r: Self)
        ensures
            /*@C01,C12 #new_remaining*/ r.remaining == len,
            /*@C02 #new_stream*/ r.stream == stream,
    //@body
    //@end

    //@fn src/body.rs :: impl Stream for ExactLenStream :: fn poll_next props=C01,C02,C07,C12,C20 implicit=C13,C20 rules=R1
    fn poll_next(&mut self, cx: &mut Context) -> (r: Poll<Option<Result<D, E>>>)
        ensures
            /*@C00 #exact_rel*/ exact_rel(old(self).remaining, old(self).stream.next_item(), r, final(self).remaining),
            /*@C01,C12 #exact_accounting*/ acct_rel(old(self).remaining, r, final(self).remaining),
            /*@C07 #exact_faults*/ exact_faults(old(self).remaining, old(self).stream.next_item(), r),
            /*@C02 #exact_identity*/ exact_identity(old(self).stream.next_item(), r),
            /*@C02 #exact_passes_on*/ exact_passes_on(old(self).remaining, old(self).stream.next_item(), r),
            /*@C20 #exact_stays_ended*/ exact_stays_ended(old(self).remaining, old(self).stream.next_item(), r),
            /*@C02,C07 #stream_advanced*/ final(self).stream == old(self).stream.after(),
    //@body
    //@end
}

// ----------------------------------------------------------------------------------------------
// src/serving.rs: MultipartStream
//@item src/serving.rs :: const PART_TRAILER rules=R25 vis=none
#[verifier::reject_recursive_types(D)]
#[verifier::reject_recursive_types(E)]
//@item src/serving.rs :: struct MultipartStream rules=T_stream

pub open spec fn trailer_bytes() -> Seq<u8> { seq![0x0du8, 0x0au8, 0x2du8, 0x2du8, 0x42u8, 0x2du8, 0x2du8, 0x0du8, 0x0au8] } // "\r\n--B--\r\n" written from C06

//@include specs/multipart_spec.rs

pub proof fn lemma_bits(x: usize)
    ensures x >> 1 == x / 2, (x & 1) == x % 2, x <= 0x07ff_ffff_ffff_ffff ==> (x << 1 | 1) == 2 * x + 1,
{
    assert(x >> 1 == x / 2) by (bit_vector);
    assert((x & 1) == x % 2) by (bit_vector);
    assert(x <= 0x07ff_ffff_ffff_ffff ==> (x << 1 | 1) == 2 * x + 1) by (bit_vector);
}

impl<D: DataT, E: FromBoxError> MultipartStream<D, E> {
    /// Representation invariant.
    spec fn wf(&self) -> bool {
        let n = self.ranges@.len();
        &&& self.part_headers@.len() == n
        &&& n <= 0x07ff_ffff_ffff_ffff
        &&& forall|j: int| 0 <= j < n ==> (#[trigger] self.ranges@[j]).start <= self.ranges@[j].end
        &&& self.state <= 2 * n + 1
        &&& (self.cur matches Some(c) ==> self.state % 2 == 1 && self.state / 2 < n
                && c.stream.origin() == (self.entity.id(), self.ranges@[self.state as int / 2].start, self.ranges@[self.state as int / 2].end)
                && c.remaining <= self.ranges@[self.state as int / 2].end - self.ranges@[self.state as int / 2].start)
        &&& self.remaining as int == self.owed()
    }
    /// Bytes this stream still has to emit; the size hint is this number.
    spec fn owed(&self) -> int {
        let n = self.ranges@.len() as int;
        let i = (self.state / 2) as int;
        if self.state == 2 * n + 1 { 0 }
        else if self.state == 2 * n { 9 }
        else if self.state % 2 == 0 { rest(self.part_headers@, self.ranges@, i) }
        else { (match self.cur { Some(c) => c.remaining as int, None => self.ranges@[i].end - self.ranges@[i].start }) + rest(self.part_headers@, self.ranges@, i + 1) }
    }
    spec fn terminal(&self) -> bool {
        self.cur.is_none() && self.state == 2 * self.ranges@.len() + 1 && self.remaining == 0
    }

    //@fn src/serving.rs :: impl MultipartStream :: fn new props=C01,C02,C06,C12,C13 rules=T_stream
    fn new(entity: EntityBox<D, E>, part_headers: Vec<Vec<u8>>, ranges: Vec<std::ops::Range<u64>>, len: u64) -> (r: Self)
        requires
            part_headers@.len() == ranges@.len(), ranges@.len() <= 0x07ff_ffff_ffff_ffff,
            forall|j: int| 0 <= j < ranges@.len() ==> (#[trigger] ranges@[j]).start <= ranges@[j].end,
            len as int == rest(part_headers@, ranges@, 0),
        ensures
            /*@C01,C06,C12,C13 #new_wf*/ r.wf(),
            /*@C01,C12 #new_remaining*/ r.remaining == len,
            /*@C02,C06 #new_fields*/ r.state == 0 && r.cur.is_none() && r.part_headers == part_headers && r.ranges == ranges && r.entity == entity,
    //@body
    //@end

    //@fn src/serving.rs :: impl MultipartStream :: fn remaining props=C12
    fn remaining(&self) -> (r: u64)
        ensures /*@C12 #remaining_getter*/ r == self.remaining,
    //@body
    //@end

    //@fn src/serving.rs :: impl Stream for MultipartStream :: fn poll_next props=C01,C02,C06,C07,C12,C13,C20 implicit=C13,C20 rules=R1,R5,T_stream
    fn poll_next(&mut self, cx: &mut Context) -> (r: Poll<Option<Result<D, E>>>)
        requires old(self).wf(),
        ensures
            /*@C01,C06,C07,C12,C13,C20 #wf_preserved shared*/ !(r matches Poll::Ready(Some(Err(_)))) ==> final(self).wf(),
            /*@C12,C13,C20 #wf_after_error*/ (r matches Poll::Ready(Some(Err(_)))) ==> final(self).wf(),
            /*@C02,C06 #frame_unchanged*/ final(self).ranges == old(self).ranges && final(self).entity == old(self).entity && final(self).part_headers@.len() == old(self).part_headers@.len(),
            /*@C01,C12 #accounting shared*/ match r {
                Poll::Ready(Some(Ok(d))) => d.bytes().len() <= old(self).remaining && final(self).remaining == old(self).remaining - d.bytes().len(),
                Poll::Ready(Some(Err(_))) => final(self).remaining == 0,
                Poll::Ready(None) => old(self).remaining == 0 && final(self).remaining == 0,
                Poll::Pending => final(self).remaining == old(self).remaining,
            },
            /*@C07 #part_fault_is_error*/ (old(self).cur matches Some(c) && (c.stream.next_item() matches Poll::Ready(Some(Err(_))) || (c.stream.next_item() matches Poll::Ready(None) && c.remaining != 0)
                    || (c.stream.next_item() matches Poll::Ready(Some(Ok(d))) && d.bytes().len() > c.remaining))) ==> r matches Poll::Ready(Some(Err(_))),
            /*@C12,C20 #terminal_after_end_or_error*/ (r matches Poll::Ready(Some(Err(_))) || r matches Poll::Ready(None)) ==> final(self).terminal(),
            /*@C20 #terminal_stays*/ old(self).terminal() ==> r matches Poll::Ready(None),
            /*@C06 #order*/ final(self).state >= old(self).state
                && (!(r matches Poll::Ready(Some(Err(_)))) ==> final(self).state <= old(self).state + 2)
                && ((r matches Poll::Pending || r matches Poll::Ready(None)) ==> final(self).state == old(self).state)
                && ((r matches Poll::Pending) ==> final(self).state % 2 == 1),
            /*@C02,C06 #part_stream_continues*/ old(self).cur matches Some(c0) ==> (
                    (r matches Poll::Pending ==> (final(self).cur matches Some(c1) && c1.stream == c0.stream.after() && c1.remaining == c0.remaining))
                    && ((r matches Poll::Ready(Some(Ok(_))) && final(self).state == old(self).state) ==> (final(self).cur matches Some(c1) && c1.stream == c0.stream.after()))),
            /*@C06,C02 #frame_identity*/ r matches Poll::Ready(Some(Ok(d))) ==> {
                let n = old(self).ranges@.len();
                let i = final(self).state as int / 2;
                ||| (final(self).state == 2 * n + 1 && old(self).state < final(self).state && d.bytes() == trailer_bytes())
                ||| (final(self).state % 2 == 1 && i < n && final(self).cur.is_none() && old(self).state < final(self).state
                        && d.bytes() == old(self).part_headers@[i]@)
                ||| (final(self).state % 2 == 1 && i < n && final(self).cur.is_some() && final(self).state == old(self).state
                        && (exists|s: Inner<D, E>| s.origin() == (old(self).entity.id(), old(self).ranges@[i].start, old(self).ranges@[i].end)
                                && #[trigger] s.next_item() == r))
            },
    //@body
    //@ loop 1: invariant /*@C01,C06,C07,C12,C13,C20 #inv_wf shared*/ this.wf(), /*@C01,C12 #inv_remaining_untouched_until_a_frame_is_returned shared*/ this.remaining == old(self).remaining, *final(this) == *final(self),
    //@ | this.ranges == old(self).ranges, this.entity == old(self).entity, this.part_headers@ == old(self).part_headers@,
    //@ | this.state == old(self).state || (this.state == old(self).state + 1 && this.state % 2 == 0 && this.cur.is_none()),
    //@ | old(self).terminal() ==> this.terminal(),
    //@ | (old(self).cur.is_some() && this.state == old(self).state) ==> this.cur == old(self).cur,
    //@ | /*@C07 #inv_first_poll_or_clean_part_end*/ this.cur == old(self).cur || (old(self).cur matches Some(c) ==> (c.stream.next_item() matches Poll::Ready(None) && c.remaining == 0)),
    //@ | decreases 2 * this.ranges@.len() + 1 - this.state, (if this.cur.is_some() { 0int } else { 1int }),
    //@ after "loop {": proof { lemma_bits(this.state); lemma_bits(this.ranges.len()); lemma_rest_nonneg(this.part_headers@, this.ranges@, (this.state / 2) as int + 1); lemma_rest_nonneg(this.part_headers@, this.ranges@, (this.state / 2) as int); } let ghost pre = *this; let ghost ph0 = this.part_headers@;
    //@ before "let i = this.state >> 1;": proof { lemma_bits(this.state); lemma_rest_nonneg(this.part_headers@, this.ranges@, (this.state / 2) as int + 1); lemma_rest_nonneg(this.part_headers@, this.ranges@, (this.state / 2) as int); }
    //@ before "this.state += 1;" #3: proof { lemma_rest_frame(ph0, this.part_headers@, this.ranges@, i as int + 1); lemma_rest_nonneg(ph0, this.ranges@, i as int + 1); }
    //@end
}


// ----------------------------------------------------------------------------------------------
// src/body.rs: BodyStream / Body dispatch (V-body).  Not extracted: `Body::poll_frame` (pin projection plus
// `.map(|p| p.map(|o| o.map(Frame::data)))`, 3 lines wrapping each item into a data frame).
#[verifier::reject_recursive_types(D)]
#[verifier::reject_recursive_types(E)]
//@item src/body.rs :: enum BodyStream rules=T_stream,R1
#[verifier::reject_recursive_types(D)]
#[verifier::reject_recursive_types(E)]
//@item src/body.rs :: struct Body rules=T_stream,R1

/// String::into_bytes (assumed std contract): the string's UTF-8 bytes.
pub uninterp spec fn string_bytes(s: String) -> Seq<u8>;
pub assume_specification[ String::into_bytes ](s: String) -> (r: Vec<u8>)
    ensures r@ == string_bytes(s);

/// Bytes a body will still deliver if it ends cleanly, as far as this crate controls it (C12).
spec fn owed_bytes<D: DataT, E: FromBoxError>(b: BodyStream<D, E>) -> int {
    match b {
        BodyStream::Once(Some(Ok(d))) => d.bytes().len() as int,
        BodyStream::Once(_) => 0,
        BodyStream::ExactLen(l) => l.remaining as int,
        BodyStream::Multipart(s) => s.remaining as int,
        BodyStream::Chunker(c) => c.queued_bytes() as int,
    }
}

impl<D: DataT, E: FromBoxError> BodyStream<D, E> {
    spec fn wf(&self) -> bool { self matches BodyStream::Multipart(s) ==> s.wf() }

    //@fn src/body.rs :: impl Stream for BodyStream :: fn poll_next props=C01,C12,C20 implicit=C13,C20 rules=R1
    fn poll_next(&mut self, cx: &mut Context) -> (r: Poll<Option<Result<D, E>>>)
        requires old(self).wf(),
        ensures
            /*@C01,C12,C20 #dispatch_wf*/ final(self).wf(),
            /*@C01,C12,C20 #dispatch_once*/ *old(self) matches BodyStream::Once(c) ==> r == Poll::Ready(c) && *final(self) == BodyStream::<D, E>::Once(None),
            /*@C00 #dispatch_exact*/ *old(self) matches BodyStream::ExactLen(s0) ==> (*final(self) matches BodyStream::ExactLen(s1)
                && exact_rel(s0.remaining, s0.stream.next_item(), r, s1.remaining) && s1.stream == s0.stream.after()),
            /*@C01,C12 #dispatch_exact_accounting*/ *old(self) matches BodyStream::ExactLen(s0) ==> (*final(self) matches BodyStream::ExactLen(s1) && acct_rel(s0.remaining, r, s1.remaining)),
            /*@C07 #dispatch_exact_faults*/ *old(self) matches BodyStream::ExactLen(s0) ==> exact_faults(s0.remaining, s0.stream.next_item(), r),
            /*@C02 #dispatch_exact_identity*/ *old(self) matches BodyStream::ExactLen(s0) ==> exact_identity(s0.stream.next_item(), r),
            /*@C02 #dispatch_exact_passes_on*/ *old(self) matches BodyStream::ExactLen(s0) ==> exact_passes_on(s0.remaining, s0.stream.next_item(), r),
            /*@C20 #dispatch_exact_stays_ended*/ *old(self) matches BodyStream::ExactLen(s0) ==> exact_stays_ended(s0.remaining, s0.stream.next_item(), r),
            /*@C01,C12 #dispatch_multipart_accounting*/ *old(self) matches BodyStream::Multipart(s0) ==> (*final(self) matches BodyStream::Multipart(s1)
                && acct_rel(s0.remaining, r, s1.remaining)),
            /*@C12,C20 #dispatch_multipart_terminal*/ *old(self) matches BodyStream::Multipart(s0) ==> (*final(self) matches BodyStream::Multipart(s1)
                && ((r matches Poll::Ready(Some(Err(_))) || r matches Poll::Ready(None)) ==> s1.terminal())
                && (s0.terminal() ==> r matches Poll::Ready(None))),
            /*@C12,C20 #dispatch_chunker*/ *old(self) matches BodyStream::Chunker(c0) ==> (*final(self) matches BodyStream::Chunker(c1) && c0.poll_rel(r, c1)),
    //@body
    //@end
}

/// Nothing owed means the multipart stream is in its terminal state (the trailer is the last 9 owed bytes).
proof fn lemma_zero_is_terminal<D: DataT, E: FromBoxError>(s: MultipartStream<D, E>)
    requires s.wf(), s.remaining == 0
    ensures s.terminal()
{
    let n = s.ranges@.len() as int;
    let i = (s.state / 2) as int;
    lemma_rest_nonneg(s.part_headers@, s.ranges@, i);
    lemma_rest_nonneg(s.part_headers@, s.ranges@, i + 1);
}

/// `poll_frame` result with the `Frame::data` wrapper removed.
spec fn unframe<D, E>(r: Poll<Option<Result<Frame<D>, E>>>) -> Poll<Option<Result<D, E>>> {
    match r {
        Poll::Ready(Some(Ok(f))) => Poll::Ready(Some(Ok(f.data))),
        Poll::Ready(Some(Err(e))) => Poll::Ready(Some(Err(e))),
        Poll::Ready(None) => Poll::Ready(None),
        Poll::Pending => Poll::Pending,
    }
}

impl<D: DataT, E: FromBoxError> Body<D, E> {
    //@fn src/body.rs :: impl Body for Body :: fn poll_frame props=C01,C07,C12,C20 implicit=C13,C20 rules=R1,R33
    fn poll_frame(&mut self, cx: &mut Context) -> (r: Poll<Option<Result<Frame<D>, E>>>)
        requires old(self).0.wf(),
        ensures
            /*@C01,C07,C12,C20 #frame_wf*/ final(self).0.wf(),
            /*@C01,C12,C20 #frame_once*/ old(self).0 matches BodyStream::Once(c) ==> unframe(r) == Poll::Ready(c) && final(self).0 == BodyStream::<D, E>::Once(None),
            /*@C00 #frame_exact*/ old(self).0 matches BodyStream::ExactLen(s0) ==> (final(self).0 matches BodyStream::ExactLen(s1)
                && exact_rel(s0.remaining, s0.stream.next_item(), unframe(r), s1.remaining) && s1.stream == s0.stream.after()),
            /*@C01,C12 #frame_exact_accounting*/ old(self).0 matches BodyStream::ExactLen(s0) ==> (final(self).0 matches BodyStream::ExactLen(s1) && acct_rel(s0.remaining, unframe(r), s1.remaining)),
            /*@C07 #frame_exact_faults*/ old(self).0 matches BodyStream::ExactLen(s0) ==> exact_faults(s0.remaining, s0.stream.next_item(), unframe(r)),
            /*@C02 #frame_exact_identity*/ old(self).0 matches BodyStream::ExactLen(s0) ==> exact_identity(s0.stream.next_item(), unframe(r)),
            /*@C20 #frame_exact_stays_ended*/ old(self).0 matches BodyStream::ExactLen(s0) ==> exact_stays_ended(s0.remaining, s0.stream.next_item(), unframe(r)),
            /*@C01,C12 #frame_multipart_accounting*/ old(self).0 matches BodyStream::Multipart(s0) ==> (final(self).0 matches BodyStream::Multipart(s1)
                && acct_rel(s0.remaining, unframe(r), s1.remaining)),
            /*@C07,C12,C20 #frame_multipart_terminal*/ old(self).0 matches BodyStream::Multipart(s0) ==> (final(self).0 matches BodyStream::Multipart(s1)
                && ((unframe(r) matches Poll::Ready(Some(Err(_))) || unframe(r) matches Poll::Ready(None)) ==> s1.terminal())
                && (s0.terminal() ==> unframe(r) matches Poll::Ready(None))),
            /*@C08,C11,C12,C20 #frame_chunker*/ old(self).0 matches BodyStream::Chunker(c0) ==> (final(self).0 matches BodyStream::Chunker(c1) && c0.poll_rel(unframe(r), c1)),
    //@body
    //@ at_start: let ghost body0 = self.0; proof { if let BodyStream::Multipart(s) = body0 { if s.remaining == 0 { lemma_zero_is_terminal(s); } } }
    //@end

    //@fn src/body.rs :: impl Body for Body :: fn size_hint props=C01,C12
    fn size_hint(&self) -> (r: SizeHint)
        ensures
            /*@C01,C12 #hint_exact_for_serve_bodies*/ !(self.0 is Chunker) ==> r.lower == owed_bytes(self.0) && r.upper == Some(r.lower),
            /*@C12 #hint_chunker_delegated*/ self.0 matches BodyStream::Chunker(c) ==> r == c.size_hint_spec(),
    //@body
    //@end

    //@fn src/body.rs :: impl Body for Body :: fn is_end_stream props=C12
    fn is_end_stream(&self) -> (r: bool)
        ensures
            /*@C12 #eos_once*/ self.0 matches BodyStream::Once(c) ==> r == c.is_none(),
            /*@C12 #eos_exact*/ self.0 matches BodyStream::ExactLen(l) ==> r == (l.remaining == 0),
            /*@C12 #eos_multipart*/ self.0 matches BodyStream::Multipart(s) ==> r == (s.remaining == 0),
            /*@C12 #eos_chunker_delegated*/ self.0 matches BodyStream::Chunker(c) ==> r == c.eos_spec(),
    //@body
    //@end

    //@fn src/body.rs :: impl Body :: fn empty props=C01,C12,C15
    fn empty() -> (r: Self)
        ensures /*@C01,C12,C15 #empty_body*/ r.0 == BodyStream::<D, E>::Once(None),
    //@body
    //@end

    //@fn src/body.rs :: impl From for Body #1 :: fn from as=from_static_bytes props=C01,C12
    fn from_static_bytes(value: &'static [u8]) -> (r: Self)
        ensures /*@C01,C12 #from_static_bytes*/ r.0 matches BodyStream::Once(Some(Ok(d))) && d.bytes() == value@,
    //@body
    //@end

    //@fn src/body.rs :: impl From for Body #2 :: fn from as=from_static_str props=C12
    fn from_static_str(value: &'static str) -> (r: Self)
        ensures /*@C12 #from_static_str_is_one_frame*/ r.0 matches BodyStream::Once(Some(Ok(_))),
    //@body
    //@end

    //@fn src/body.rs :: impl From for Body #4 :: fn from as=from_string props=C12
    fn from_string(value: String) -> (r: Self)
        ensures /*@C12 #from_string_is_one_frame*/ r.0 matches BodyStream::Once(Some(Ok(d))) && d.bytes() == string_bytes(value),
    //@body
    //@end

    //@fn src/body.rs :: impl From for Body #3 :: fn from as=from_vec props=C01,C12
    fn from_vec(value: Vec<u8>) -> (r: Self)
        ensures /*@C01,C12 #from_vec*/ r.0 matches BodyStream::Once(Some(Ok(d))) && d.bytes() == value@,
    //@body
    //@end
}

// ----------------------------------------------------------------------------------------------
// Composition layer (L): trace lemmas.  Pure specification: they mention only the relations exported above.

/// The byte accounting every `serve` body obeys per poll (`rem`: bytes still owed = the exact size hint).
pub open spec fn acct_rel<D: Buf, E>(rem: u64, r: Poll<Option<Result<D, E>>>, rem2: u64) -> bool {
    match r {
        Poll::Ready(Some(Ok(d))) => d.bytes().len() <= rem && rem2 == rem - d.bytes().len(),
        Poll::Ready(Some(Err(_))) => rem2 == rem || rem2 == 0,
        Poll::Ready(None) => rem == 0 && rem2 == 0,
        Poll::Pending => rem2 == rem,
    }
}

pub struct Step<D, E> { pub out: Poll<Option<Result<D, E>>>, pub rem_after: u64 }

pub open spec fn trace_ok<D: Buf, E>(rem0: u64, t: Seq<Step<D, E>>) -> bool
    decreases t.len()
{
    t.len() == 0 || (trace_ok(rem0, t.drop_last())
        && acct_rel(if t.len() == 1 { rem0 } else { t[t.len() - 2].rem_after }, t.last().out, t.last().rem_after))
}
pub open spec fn delivered<D: Buf, E>(t: Seq<Step<D, E>>) -> int
    decreases t.len()
{
    if t.len() == 0 { 0 } else { delivered(t.drop_last()) + (match t.last().out { Poll::Ready(Some(Ok(d))) => d.bytes().len() as int, _ => 0 }) }
}
pub open spec fn no_error<D: Buf, E>(t: Seq<Step<D, E>>) -> bool {
    forall|i: int| 0 <= i < t.len() ==> !(#[trigger] t[i].out matches Poll::Ready(Some(Err(_))))
}
pub open spec fn rem_at<D: Buf, E>(rem0: u64, t: Seq<Step<D, E>>) -> u64 { if t.len() == 0 { rem0 } else { t.last().rem_after } }

//@lemma props=C01,C07,C12 lemma_exact_implies_acct
pub proof fn lemma_exact_implies_acct<D: Buf, E>(rem: u64, item: Poll<Option<Result<D, E>>>, r: Poll<Option<Result<D, E>>>, rem2: u64)
    requires exact_rel(rem, item, r, rem2)
    ensures /*@C01,C07,C12 #exact_implies_acct*/ acct_rel(rem, r, rem2),
            /*@C07 #short_or_failed_is_error*/ (item matches Poll::Ready(None) && rem != 0) ==> r matches Poll::Ready(Some(Err(_))),
            /*@C07 #too_long_is_error*/ (item matches Poll::Ready(Some(Ok(d))) && d.bytes().len() > rem) ==> r matches Poll::Ready(Some(Err(_))),
            /*@C07 #inner_error_is_error*/ (item matches Poll::Ready(Some(Err(_)))) ==> r matches Poll::Ready(Some(Err(_))),
{}
//@endlemma

//@lemma props=C01,C07,C12 lemma_accounting_trace
/// For every trace of polls (any chunking, empty chunks, Pending polls, any number of steps):
/// never more than announced; hint = announced - delivered while no error occurred; a clean end means exactly announced.
pub proof fn lemma_accounting_trace<D: Buf, E>(rem0: u64, t: Seq<Step<D, E>>)
    requires trace_ok(rem0, t)
    ensures
        /*@C01,C07 #never_more_than_announced*/ delivered(t) + rem_at(rem0, t) <= rem0,
        /*@C01,C12 #hint_is_remaining*/ no_error(t) ==> delivered(t) + rem_at(rem0, t) == rem0,
        /*@C01,C07 #clean_end_means_exact*/ (t.len() > 0 && no_error(t) && t.last().out matches Poll::Ready(None)) ==> delivered(t) == rem0,
    decreases t.len()
{
    if t.len() > 0 {
        lemma_accounting_trace(rem0, t.drop_last());
        assert(no_error(t) ==> no_error(t.drop_last())) by {
            if no_error(t) { assert forall|i: int| 0 <= i < t.drop_last().len() implies !(#[trigger] t.drop_last()[i].out matches Poll::Ready(Some(Err(_)))) by { assert(t.drop_last()[i] == t[i]); } }
        }
        if t.len() >= 2 { assert(t.drop_last().last() == t[t.len() - 2]); }
    }
}
//@endlemma


// ---- C06: frames come out in request order and none is skipped ----
/// What one poll of a MultipartStream emitted, as pinned down by #order / #frame_identity.
pub enum FrameKind { Header(int), Chunk(int), Trailer, Nothing }
pub struct MStep { pub s0: int, pub s1: int, pub kind: FrameKind }
/// The per-call contract of MultipartStream::poll_next for error-free calls, on (state before, state after, frame kind).
pub open spec fn mstep_ok(n: int, st: MStep) -> bool {
    &&& 0 <= st.s0 <= st.s1 <= 2 * n + 1 && st.s1 <= st.s0 + 2
    &&& match st.kind {
        FrameKind::Trailer => st.s1 == 2 * n + 1 && st.s0 < st.s1,
        FrameKind::Header(i) => st.s1 % 2 == 1 && st.s1 / 2 == i && i < n && st.s0 < st.s1,
        FrameKind::Chunk(i) => st.s1 == st.s0 && st.s1 % 2 == 1 && st.s1 / 2 == i && i < n,
        FrameKind::Nothing => st.s1 == st.s0,
    }
}
pub open spec fn mtrace_ok(n: int, t: Seq<MStep>) -> bool {
    &&& forall|j: int| 0 <= j < t.len() ==> mstep_ok(n, #[trigger] t[j])
    &&& (t.len() > 0 ==> t[0].s0 == 0)
    &&& forall|j: int| 0 < j < t.len() ==> (#[trigger] t[j]).s0 == t[j - 1].s1
}
/// Number of header-kind frames (part headers and the trailer) emitted once the state is s.
pub open spec fn hdrs_emitted(s: int) -> int { (s + 1) / 2 }

//@lemma props=C06 lemma_contract_gives_mstep
/// The clauses #order and #frame_identity of MultipartStream::poll_next, read on (state before, state after), are exactly
/// one `mstep_ok` step - this ties the real contract to the history lemma below.
proof fn lemma_contract_gives_mstep(n: int, s0: int, s1: int, cur1_some: bool, is_ok: bool, is_pending_or_end: bool, is_trailer: bool)
    requires
        0 <= s0 <= 2 * n + 1, 0 <= s1 <= 2 * n + 1,
        // #order (error-free call)
        s1 >= s0, s1 <= s0 + 2, is_pending_or_end ==> s1 == s0,
        // #frame_identity, first components of its three disjuncts
        is_ok ==> ((s1 == 2 * n + 1 && s0 < s1 && is_trailer) || (s1 % 2 == 1 && s1 / 2 < n && !cur1_some && s0 < s1 && !is_trailer) || (s1 % 2 == 1 && s1 / 2 < n && cur1_some && s1 == s0 && !is_trailer)),
        is_ok != is_pending_or_end,
    ensures /*@C06 #contract_is_a_step*/ exists|k: FrameKind| mstep_ok(n, MStep { s0, s1, kind: k }),
{
    if is_pending_or_end { assert(mstep_ok(n, MStep { s0, s1, kind: FrameKind::Nothing })); }
    else if is_trailer { assert(mstep_ok(n, MStep { s0, s1, kind: FrameKind::Trailer })); }
    else if cur1_some { assert(mstep_ok(n, MStep { s0, s1, kind: FrameKind::Chunk(s1 / 2) })); }
    else { assert(mstep_ok(n, MStep { s0, s1, kind: FrameKind::Header(s1 / 2) })); }
}
//@endlemma

//@lemma props=C06 lemma_multipart_order
/// For every error-free history of polls from the initial state: the k-th header-kind frame is the header of part k
/// (k < n) or, for k = n, the trailer - so part headers come in request order, none is skipped or repeated - and every data
/// chunk of part i is emitted after header i and before header i+1.  If the history reaches the end state, all n
/// headers and the trailer have been emitted.
proof fn lemma_multipart_order(n: int, t: Seq<MStep>)
    requires n >= 0, mtrace_ok(n, t)
    ensures
        /*@C06 #headers_in_request_order*/ forall|j: int| 0 <= j < t.len() ==> (match (#[trigger] t[j]).kind {
            FrameKind::Header(i) => i == hdrs_emitted(t[j].s0) && hdrs_emitted(t[j].s1) == i + 1,
            FrameKind::Trailer => hdrs_emitted(t[j].s0) == n && hdrs_emitted(t[j].s1) == n + 1,
            FrameKind::Chunk(i) => hdrs_emitted(t[j].s0) == i + 1 && hdrs_emitted(t[j].s1) == i + 1,
            FrameKind::Nothing => hdrs_emitted(t[j].s1) == hdrs_emitted(t[j].s0),
        }),
        /*@C06 #complete_at_end*/ (t.len() > 0 && t.last().s1 == 2 * n + 1) ==> hdrs_emitted(t.last().s1) == n + 1,
{
    assert forall|j: int| 0 <= j < t.len() implies (match (#[trigger] t[j]).kind {
            FrameKind::Header(i) => i == hdrs_emitted(t[j].s0) && hdrs_emitted(t[j].s1) == i + 1,
            FrameKind::Trailer => hdrs_emitted(t[j].s0) == n && hdrs_emitted(t[j].s1) == n + 1,
            FrameKind::Chunk(i) => hdrs_emitted(t[j].s0) == i + 1 && hdrs_emitted(t[j].s1) == i + 1,
            FrameKind::Nothing => hdrs_emitted(t[j].s1) == hdrs_emitted(t[j].s0),
        }) by {
        assert(mstep_ok(n, t[j]));
    }
}
//@endlemma

//@auto_helpers src/body.rs src/serving.rs rules=T_stream,R1
//@canary_false
} // verus!
fn main() {}
