// Unit `cond`: src/etag.rs any_match / none_match and src/serving.rs parse_modified_hdrs (C04, part of C14).
// Callee contracts on weak_eq / strong_eq / List::next are the ones discharged in unit `etag` (same spec file).
#![feature(allocator_api)]
use vstd::prelude::*;
verus! {

//@include prelude/core.rs
//@include prelude/str.rs
//@include prelude/http.rs
//@include specs/etag_spec.rs
//@include prelude/slice.rs
use stub::*;
use http::{HeaderMap, HeaderName, HeaderValue};
use http::header;
use etag_spec::*;
use sl::*;

pub mod etag {
    use vstd::prelude::*;
    use crate::http::{HeaderMap, HeaderName, HeaderValue};
    use crate::http::header;
    use crate::etag_spec::*;

    //@item src/etag.rs :: struct List vis=pub rules=T_pubfields
    //@include specs/etag_contracts.rs

    /// Callee contracts (discharged on the real bodies in unit `etag`).
    #[verifier::external_body]
    pub fn weak_eq(a: &[u8], b: &[u8]) -> (r: bool) ensures r == weak_eq_s(a@, b@) { unimplemented!() }
    #[verifier::external_body]
    pub fn strong_eq(a: &[u8], b: &[u8]) -> (r: bool) ensures r == strong_eq_s(a@, b@) { unimplemented!() }
    impl<'a> List<'a> {
        #[verifier::external_body]
        pub fn next(&mut self) -> (r: Option<&'a [u8]>) ensures next_post(*old(self), r, *final(self)) { unimplemented!() }

        //@fn src/etag.rs :: impl List :: fn from props=C04
        pub fn from(l: &[u8]) -> (r: List)
            ensures /*@C04 #list_from*/ r.remaining@ == l@ && !r.corrupt,
        //@body
        //@end
    }

    /// A well-formed entity-tag on its own: exactly one list element.
    pub open spec fn single_tag(t: Seq<u8>) -> bool { list_step(t) == Step::Item(t, Seq::<u8>::empty()) && !is_star(t) }
    pub proof fn lemma_single_tag_scan(t: Seq<u8>)
        requires single_tag(t)
        ensures scan(t, t, true) == (true, false), !is_weak(t) ==> scan(t, t, false) == (true, false)
    {
        lemma_step_shrinks(t);
        assert(scan(Seq::<u8>::empty(), t, true) == (false, false));
        assert(scan(Seq::<u8>::empty(), t, false) == (false, false));
    }
    /// The header is absent, `*`, or a well-formed tag list.
    pub open spec fn list_ok(m: Option<Seq<u8>>) -> bool { match m { None => true, Some(l) => is_star(l) || wf_list(l) } }
    pub open spec fn opt_bytes(v: Option<HeaderValue>) -> Option<Seq<u8>> { match v { Some(h) => Some(h.bytes@), None => None } }
    pub open spec fn hdr_bytes(h: &HeaderMap, k: HeaderName) -> Option<Seq<u8>> { if h.m@.dom().contains(k) { Some(h.m@[k].bytes@) } else { None } }

    //@fn src/etag.rs :: fn none_match props=C04,C14 implicit=C13 rules=R10,R22,STD
    #[verifier::loop_isolation(false)]
    pub fn none_match(etag: &Option<HeaderValue>, req_hdrs: &HeaderMap) -> (r: Option<bool>)
        ensures /*@C04 #none_match_is_weak_list_comparison*/ list_ok(hdr_bytes(req_hdrs, HeaderName::IF_NONE_MATCH)) ==> r == none_match_s(opt_bytes(*etag), hdr_bytes(req_hdrs, HeaderName::IF_NONE_MATCH)),
            /*@C14 #echoed_etag_gives_not_modified*/ (*etag matches Some(e) && single_tag(e.bytes@) && hdr_bytes(req_hdrs, HeaderName::IF_NONE_MATCH) == Some(e.bytes@)) ==> r == Some(false),
    //@body
    //@ at_start: proof { if let Some(e) = etag { if single_tag(e.bytes@) { lemma_single_tag_scan(e.bytes@); } } }
    //@ loop 1: invariant /*@C04 #none_match_scan_invariant*/ wf_list(hdr_bytes(req_hdrs, HeaderName::IF_NONE_MATCH).unwrap()) ==> wf_list(items.remaining@) && !items.corrupt && scan(hdr_bytes(req_hdrs, HeaderName::IF_NONE_MATCH).unwrap(), opt_bytes(*etag).unwrap(), true) == ((!none_match || scan(items.remaining@, opt_bytes(*etag).unwrap(), true).0), scan(items.remaining@, opt_bytes(*etag).unwrap(), true).1), decreases items.remaining@.len(),
    //@ after "loop {": proof { lemma_step_shrinks(items.remaining@); }
    //@end

    //@fn src/etag.rs :: fn any_match props=C04,C14 implicit=C13 rules=R10,R22,STD
    #[verifier::loop_isolation(false)]
    pub fn any_match(etag: &Option<HeaderValue>, req_hdrs: &HeaderMap) -> (r: Result<bool, &'static str>)
        ensures /*@C04 #any_match_is_strong_list_comparison*/ list_ok(hdr_bytes(req_hdrs, HeaderName::IF_MATCH)) ==> (match r { Ok(b) => Ok::<bool, ()>(b), Err(_) => Err::<bool, ()>(()) }) == any_match_s(opt_bytes(*etag), hdr_bytes(req_hdrs, HeaderName::IF_MATCH)),
            /*@C14 #echoed_strong_etag_passes_if_match*/ (*etag matches Some(e) && single_tag(e.bytes@) && !is_weak(e.bytes@) && hdr_bytes(req_hdrs, HeaderName::IF_MATCH) == Some(e.bytes@)) ==> r == Ok::<bool, &'static str>(true),
    //@body
    //@ at_start: proof { if let Some(e) = etag { if single_tag(e.bytes@) { lemma_single_tag_scan(e.bytes@); } } }
    //@ loop 1: invariant /*@C04 #any_match_scan_invariant*/ wf_list(hdr_bytes(req_hdrs, HeaderName::IF_MATCH).unwrap()) ==> wf_list(items.remaining@) && !items.corrupt && scan(hdr_bytes(req_hdrs, HeaderName::IF_MATCH).unwrap(), opt_bytes(*etag).unwrap(), false) == ((any_match || scan(items.remaining@, opt_bytes(*etag).unwrap(), false).0), scan(items.remaining@, opt_bytes(*etag).unwrap(), false).1), decreases items.remaining@.len(),
    //@ after "loop {": proof { lemma_step_shrinks(items.remaining@); }
    //@end
}

// ---- C04 oracle, written from the property statement ----
pub open spec fn hdr_date(h: &HeaderMap, k: HeaderName) -> Option<Option<SystemTime>> {
    // None: header absent; Some(None): present but not a parseable HTTP-date
    if !h.m@.dom().contains(k) { None } else { match http::sp_to_str(h.m@[k].bytes@) { None => Some(None), Some(s) => Some(sp_http_date(s)) } }
}
/// Validators are well-formed: tag lists parse, dates parse.
pub open spec fn well_formed(etag: Option<HeaderValue>, h: &HeaderMap, lm: Option<SystemTime>) -> bool {
    &&& etag::list_ok(etag::hdr_bytes(h, HeaderName::IF_MATCH))
    &&& etag::list_ok(etag::hdr_bytes(h, HeaderName::IF_NONE_MATCH))
    &&& (hdr_date(h, HeaderName::IF_UNMODIFIED_SINCE) matches Some(d) ==> d.is_some())
    &&& (hdr_date(h, HeaderName::IF_MODIFIED_SINCE) matches Some(d) ==> d.is_some())
}
/// 412 exactly when If-Match is present and none of its tags strongly equals the ETag (`*` passes), or If-Match is
/// absent and If-Unmodified-Since is earlier than the second in which the entity was last modified.
pub open spec fn precondition_failed_s(etag: Option<HeaderValue>, h: &HeaderMap, lm: Option<SystemTime>) -> bool {
    if h.m@.dom().contains(HeaderName::IF_MATCH) {
        any_match_s(etag::opt_bytes(etag), etag::hdr_bytes(h, HeaderName::IF_MATCH)) != Ok::<bool, ()>(true)
    } else { match (lm, hdr_date(h, HeaderName::IF_UNMODIFIED_SINCE)) {
        (Some(m), Some(Some(since))) => since.secs < m.secs,
        _ => false,
    } }
}
/// 304 exactly when If-None-Match is `*` or one of its tags weakly equals the ETag, or If-None-Match is absent and the
/// last-modified second is not later than If-Modified-Since.
pub open spec fn not_modified_s(etag: Option<HeaderValue>, h: &HeaderMap, lm: Option<SystemTime>) -> bool {
    if h.m@.dom().contains(HeaderName::IF_NONE_MATCH) {
        none_match_s(etag::opt_bytes(etag), etag::hdr_bytes(h, HeaderName::IF_NONE_MATCH)) == Some(false)
    } else { match (lm, hdr_date(h, HeaderName::IF_MODIFIED_SINCE)) {
        (Some(m), Some(Some(since))) => m.secs <= since.secs,
        _ => false,
    } }
}

broadcast use stub::http_date_whole_second;

//@fn src/serving.rs :: fn truncate_to_second props=C04,C14 implicit=C13
fn truncate_to_second(t: SystemTime) -> (r: SystemTime)
    requires t.nanos < 1_000_000_000,
    ensures /*@C04,C14 #truncates_to_whole_second*/ t.secs >= 0 ==> (r.secs == t.secs && r.nanos == 0),
            /*@C04 #pre_epoch_time_unchanged*/ t.secs < 0 ==> r == t,
//@body
//@end

//@fn src/serving.rs :: fn parse_modified_hdrs props=C04,C14 implicit=C13 rules=R7,R13,STD
fn parse_modified_hdrs(etag: &Option<HeaderValue>, req_hdrs: &HeaderMap, last_modified: Option<SystemTime>) -> (res: Result<(bool, bool), &'static str>)
    requires last_modified matches Some(m) ==> m.nanos < 1_000_000_000,
    ensures
        /*@C04 #precondition_failed_per_rfc7232*/ well_formed(*etag, req_hdrs, last_modified) ==> (res matches Ok(p) && p.0 == precondition_failed_s(*etag, req_hdrs, last_modified)),
        /*@C04 #not_modified_per_rfc7232*/ well_formed(*etag, req_hdrs, last_modified) ==> (res matches Ok(p) && p.1 == not_modified_s(*etag, req_hdrs, last_modified)),
        /*@C14 #echoed_last_modified_in_if_unmodified_since*/ (well_formed(*etag, req_hdrs, last_modified) && !req_hdrs.m@.dom().contains(HeaderName::IF_MATCH)
            && (last_modified matches Some(m) && hdr_date(req_hdrs, HeaderName::IF_UNMODIFIED_SINCE) matches Some(Some(d)) && d.secs == m.secs)) ==> (res matches Ok(p) && !p.0),
        /*@C14 #echoed_last_modified_in_if_modified_since*/ (well_formed(*etag, req_hdrs, last_modified) && !req_hdrs.m@.dom().contains(HeaderName::IF_NONE_MATCH)
            && (last_modified matches Some(m) && hdr_date(req_hdrs, HeaderName::IF_MODIFIED_SINCE) matches Some(Some(d)) && d.secs == m.secs)) ==> (res matches Ok(p) && p.1),
//@body
//@ at_start: proof { if let Some(e) = etag::opt_bytes(*etag) { if let Some(m) = etag::hdr_bytes(req_hdrs, HeaderName::IF_MATCH) { if wf_list(m) { lemma_wf_not_corrupt(m, e, false); } } if let Some(m) = etag::hdr_bytes(req_hdrs, HeaderName::IF_NONE_MATCH) { if wf_list(m) { lemma_wf_not_corrupt(m, e, true); } } } }
//@end

//@lemma props=C14 lemma_echo_last_modified
/// Round trip of the served Last-Modified (C14): `d` is what the client echoes, i.e. the served value
/// fmt_http_date(min(m, now)) parsed back (assumed: httpdate renders and parses whole seconds faithfully).
proof fn lemma_echo_last_modified(m: SystemTime, now1: SystemTime, d: SystemTime)
    requires d.secs == st_min_s(m, now1).secs, d.nanos == 0,
    ensures
        /*@C14 #echo_matches_unless_future_dated*/ st_le(m, now1) ==> d.secs == m.secs,
        /*@C14 #echo_matches_even_if_future_dated*/ d.secs == m.secs,
{}
//@endlemma

//@auto_helpers src/serving.rs src/etag.rs rules=R22
//@lits
//@canary_false
} // verus!
fn main() {}
