// Unit `file`: src/file.rs ChunkedReadFile - construction and validators (the half of C18 within the verifier's reach).
// Not extracted: `get_range` (an `async` closure around pread(2) inside futures `unfold` + tokio `block_in_place`) and
// `add_headers` (iterator adapter over the `http` map); `get_range` is covered by the bounded native stand-in only.
#![feature(allocator_api)]
use vstd::prelude::*;
verus! {

//@include prelude/core.rs
//@include prelude/str.rs
//@include prelude/http.rs
use http::{HeaderMap, HeaderValue, HV};
use stub::{SystemTime, Duration};
use std::sync::Arc;
pub mod time { pub use crate::stub::SystemTime; pub const UNIX_EPOCH: SystemTime = SystemTime { secs: 0, nanos: 0 }; }

/// std::io as far as file.rs uses it.
pub mod io {
    pub enum ErrorKind { Other }
    pub struct Error { pub kind: ErrorKind }
    impl Error { pub fn new(kind: ErrorKind, _msg: &str) -> Error { Error { kind } } }
}
/// std::fs::File / Metadata: opaque OS objects (assumed: `is_file` is a function of the metadata).
pub mod fs {
    use vstd::prelude::*;
    pub struct File { pub id: Ghost<int> }
    pub struct Metadata { pub id: Ghost<int> }
    pub uninterp spec fn sp_is_file(m: &Metadata) -> bool;
    impl Metadata {
        #[verifier::external_body]
        pub fn is_file(&self) -> (r: bool) ensures r == sp_is_file(self) { unimplemented!() }
    }
}
/// src/platform.rs `file_info` (fstat / GetFileInformationByHandle: FFI, not analysed): what the OS reports for the file.
pub mod platform {
    use vstd::prelude::*;
    pub struct FileInfo { pub inode: u64, pub len: u64, pub mtime: crate::stub::SystemTime }
    pub uninterp spec fn sp_file_info(f: &crate::fs::File, m: &crate::fs::Metadata) -> Option<FileInfo>;
    #[verifier::external_body]
    pub fn file_info(f: &crate::fs::File, m: &crate::fs::Metadata) -> (r: Result<FileInfo, crate::io::Error>)
        ensures r.is_ok() == sp_file_info(f, m).is_some(), r matches Ok(i) ==> Some(i) == sp_file_info(f, m) && i.mtime.nanos < 1_000_000_000
    { unimplemented!() }
}

/// `unsafe_fmt_ascii_val!` as used by `etag` (src/lib.rs macro: write!(buf, fmt, args) into a BytesMut of initial capacity `max_len`, which grows on demand).
macro_rules! unsafe_fmt_ascii_val {
    ($max_len:expr, $fmt:literal, $a:expr, $b:expr, $c:expr, $d:expr) => { crate::fmt_hex4($max_len, $fmt, $a, $b, $c, $d) };
    ($max_len:expr, $fmt:literal, $a:expr, $b:expr, $s:expr, $c:expr, $d:expr) => { crate::fmt_hex4s($max_len, $fmt, $a, $b, $s, $c, $d) };
}
/// An argument of a formatted header value: `{:x}` of an integer, or `{}` of a string.
pub enum FArg { Hex(u64), Str(Seq<char>) }
/// Ghost meaning of a formatted value: the format literal and its arguments.  ASSUMED about core::fmt: rendering is a
/// function of (literal, arguments), `{:x}` prints lower-case hex digits without sign or padding, and for a literal whose
/// placeholders are separated by `:` distinct argument tuples render differently (hex digits contain no `:`, `-` or `"`).
pub uninterp spec fn fmt_meaning(v: HeaderValue) -> (Seq<char>, Seq<FArg>);
#[verifier::external_body]
pub fn fmt_hex4(max_len: usize, f: &'static str, a: u64, b: u64, c: u64, d: u32) -> (r: HeaderValue)
    ensures fmt_meaning(r) == (f@, seq![FArg::Hex(a), FArg::Hex(b), FArg::Hex(c), FArg::Hex(d as u64)])
{ unimplemented!() }
#[verifier::external_body]
pub fn fmt_hex4s(max_len: usize, f: &'static str, a: u64, b: u64, s: &'static str, c: u64, d: u32) -> (r: HeaderValue)
    ensures fmt_meaning(r) == (f@, seq![FArg::Hex(a), FArg::Hex(b), FArg::Str(s@), FArg::Hex(c), FArg::Hex(d as u64)])
{ unimplemented!() }

//@item src/file.rs :: struct ChunkedReadFileInner rules=T_file,T_pubfields
#[verifier::reject_recursive_types(D)]
#[verifier::reject_recursive_types(E)]
//@item src/file.rs :: struct ChunkedReadFile rules=T_file,T_pubfields

// ---- C18 (validator half), written from the property statement ----
/// The tag's meaning: a quoted (strong) tag made of inode, length and the modification time - sign, whole seconds and
/// nanoseconds of its distance from the epoch.
pub open spec fn etag_args(inode: u64, len: u64, mtime: SystemTime) -> Seq<FArg> {
    if mtime.secs >= 0 { seq![FArg::Hex(inode), FArg::Hex(len), FArg::Str(""@), FArg::Hex(mtime.secs as u64), FArg::Hex(mtime.nanos as u64)] }
    else { seq![FArg::Hex(inode), FArg::Hex(len), FArg::Str("-"@), FArg::Hex(stub::before_epoch(mtime).secs), FArg::Hex(stub::before_epoch(mtime).nanos as u64)] }
}
/// A strong entity-tag shape: opening quote, no `W/`, placeholders separated by `:`, closing quote.
pub open spec fn strong_tag_pattern() -> Seq<char> { "\"{:x}:{:x}:{}{:x}:{:x}\""@ }

//@lemma props=C18 lemma_etag_changes_when_file_changes
/// C18: the tag is a function of (inode, length, mtime) - identical for every instance opened on an unmodified file -
/// and differs once the length, the modification time or the identity (inode) differs.
proof fn lemma_etag_changes_when_file_changes(i1: u64, l1: u64, m1: SystemTime, i2: u64, l2: u64, m2: SystemTime)
    requires m1.nanos < 1_000_000_000, m2.nanos < 1_000_000_000, -0x7fff_ffff_ffff_ffff <= m1.secs, -0x7fff_ffff_ffff_ffff <= m2.secs,
    ensures /*@C18 #etag_is_injective_in_inode_len_mtime*/ etag_args(i1, l1, m1) == etag_args(i2, l2, m2) <==> (i1 == i2 && l1 == l2 && m1 == m2),
{
    reveal_strlit("");
    reveal_strlit("-");
    let a = etag_args(i1, l1, m1);
    let b = etag_args(i2, l2, m2);
    if a == b {
        assert(a[0] == b[0] && a[1] == b[1] && a[2] == b[2] && a[3] == b[3] && a[4] == b[4]);
        assert(""@.len() == 0 && "-"@.len() == 1);
        assert((m1.secs >= 0) == (m2.secs >= 0)) by {
            if (m1.secs >= 0) != (m2.secs >= 0) { assert(a[2] != b[2]); }
        }
    }
}
//@endlemma

impl<D, E> ChunkedReadFile<D, E> {
    //@fn src/file.rs :: impl ChunkedReadFile :: fn new_with_metadata props=C18 implicit=C18 rules=T_file,STD
    fn new_with_metadata(file: fs::File, metadata: &fs::Metadata, headers: HeaderMap) -> (r: Result<Self, io::Error>)
        ensures
            /*@C18 #refuses_non_regular_files*/ !fs::sp_is_file(metadata) ==> r is Err,
            /*@C18 #captures_len_inode_mtime_at_construction*/ r matches Ok(c) ==> (platform::sp_file_info(&file, metadata) matches Some(i)
                    && c.inner.len == i.len && c.inner.inode == i.inode && c.inner.mtime == i.mtime && c.inner.mtime.nanos < 1_000_000_000),
    //@body
    //@end

    //@fn src/file.rs :: impl Entity for ChunkedReadFile :: fn len props=C18
    fn len(&self) -> (r: u64)
        ensures /*@C18 #len_is_length_at_construction*/ r == self.inner.len,
    //@body
    //@end

    //@fn src/file.rs :: impl Entity for ChunkedReadFile :: fn last_modified props=C18
    fn last_modified(&self) -> (r: Option<SystemTime>)
        ensures /*@C18 #last_modified_is_mtime_at_construction*/ r == Some(self.inner.mtime),
    //@body
    //@end

    //@fn src/file.rs :: impl Entity for ChunkedReadFile :: fn etag props=C18 implicit=C18 rules=R36,STD
    fn etag(&self) -> (r: Option<HeaderValue>)
        requires self.inner.mtime.nanos < 1_000_000_000,
        ensures
            /*@C18 #etag_is_strong_tag_of_inode_len_mtime*/ r matches Some(v) && fmt_meaning(v) == (strong_tag_pattern(), etag_args(self.inner.inode, self.inner.len, self.inner.mtime)),
    //@body
    //@ at_start: proof { reveal_strlit("\"{:x}:{:x}:{}{:x}:{:x}\""); reveal_strlit("\"{:x}:{:x}:{:x}:{:x}\""); reveal_strlit(""); reveal_strlit("-"); }
    //@end
}

//@auto_helpers src/file.rs rules=T_file
//@canary_false
} // verus!
fn main() {}
