// Unit `file`: src/file.rs ChunkedReadFile - construction, validators, and the STEP FUNCTION of `get_range`'s stream.
// `get_range` is `futures::stream::unfold(state0, step)`: rule R44 lifts the closure `move |(left, inner)| async { .. }` out as
// the function `get_range_step` (its body is the closure's body, verbatim) and checks that state0 is (requested range, this
// file).  What `unfold`, `block_in_place` and pread(2) do is ASSUMED (prelude below); the step function and the trace lemma
// over it are proved.  The bounded native check on real files stays as a cross-check of those assumptions.
// Not extracted: `add_headers` (iterator adapter over the `http` map).
#![feature(allocator_api)]
use vstd::prelude::*;
verus! {

//@include prelude/core.rs
//@include prelude/str.rs
//@include prelude/http.rs
use http::{HeaderMap, HeaderValue, HV};
use stub::{SystemTime, Duration};
use std::sync::Arc;
use std::ops::Range;
use vstd::std_specs::convert::*;
pub mod time { pub use crate::stub::SystemTime; pub const UNIX_EPOCH: SystemTime = SystemTime { secs: 0, nanos: 0 }; }

/// std::io as far as file.rs uses it.
pub mod io {
    pub enum ErrorKind { Other }
    pub struct Error { pub kind: ErrorKind }
    impl Error { pub fn new(kind: ErrorKind, _msg: &str) -> Error { Error { kind } } }
}
/// std::fs::File / Metadata: opaque OS objects (assumed: `is_file` is a function of the metadata).
pub mod fs {
    use vstd::prelude::*;
    pub struct File { pub id: Ghost<int> }
    pub struct Metadata { pub id: Ghost<int> }
    pub uninterp spec fn sp_is_file(m: &Metadata) -> bool;
    pub uninterp spec fn sp_is_dir(m: &Metadata) -> bool;
    pub uninterp spec fn sp_is_symlink(m: &Metadata) -> bool;
    /// std::fs::FileType (not used by the pinned code: a partial contract so that a change that classifies the file through
    /// `file_type()` stays analysable).  The three kinds exclude each other and do NOT exhaust the file types (devices,
    /// FIFOs and sockets are none of them).
    #[derive(Clone, Copy)]
    pub struct FileType { pub file: bool, pub dir: bool, pub symlink: bool }
    impl FileType {
        pub fn is_file(&self) -> (r: bool) ensures r == self.file { self.file }
        pub fn is_dir(&self) -> (r: bool) ensures r == self.dir { self.dir }
        pub fn is_symlink(&self) -> (r: bool) ensures r == self.symlink { self.symlink }
    }
    impl Metadata {
        #[verifier::external_body]
        pub fn is_file(&self) -> (r: bool) ensures r == sp_is_file(self) { unimplemented!() }
        #[verifier::external_body]
        pub fn is_dir(&self) -> (r: bool) ensures r == sp_is_dir(self), r ==> !sp_is_file(self) { unimplemented!() }
        #[verifier::external_body]
        pub fn is_symlink(&self) -> (r: bool) ensures r == sp_is_symlink(self), r ==> !sp_is_file(self) { unimplemented!() }
        #[verifier::external_body]
        pub fn file_type(&self) -> (r: FileType)
            ensures r.file == sp_is_file(self), r.dir == sp_is_dir(self), r.symlink == sp_is_symlink(self),
                    !(r.file && r.dir), !(r.file && r.symlink), !(r.dir && r.symlink)
        { unimplemented!() }
    }
}
/// src/platform.rs `file_info` (fstat / GetFileInformationByHandle: FFI, not analysed): what the OS reports for the file.
pub mod platform {
    use vstd::prelude::*;
    pub struct FileInfo { pub inode: u64, pub len: u64, pub mtime: crate::stub::SystemTime }
    pub uninterp spec fn sp_file_info(f: &crate::fs::File, m: &crate::fs::Metadata) -> Option<FileInfo>;
    #[verifier::external_body]
    pub fn file_info(f: &crate::fs::File, m: &crate::fs::Metadata) -> (r: Result<FileInfo, crate::io::Error>)
        ensures r.is_ok() == sp_file_info(f, m).is_some(), r matches Ok(i) ==> Some(i) == sp_file_info(f, m) && i.mtime.nanos < 1_000_000_000
    { unimplemented!() }
}

/// One positioned read as the OS answered it: `n` bytes asked at offset `off`, `got` = the bytes returned (None = error).
pub struct ReadEv { pub n: int, pub off: u64, pub got: Option<Seq<u8>> }
//@typeof READ_SIZE_T = src/platform.rs :: fn read_at :: chunk_size
impl fs::File {
    /// src/platform.rs `FileExt::read_at` (pread(2) into an uninitialised buffer: unsafe FFI, ASSUMED): at most `chunk_size`
    /// bytes, and never an empty Ok (a 0-byte read - nothing at or beyond `offset` - is turned into UnexpectedEof there).
    /// Every call is appended to the ghost log `reads` (rule R44), so "which bytes were read where" can be a postcondition.
    #[verifier::external_body]
    pub fn read_at(&self, chunk_size: READ_SIZE_T, offset: u64, reads: &mut Ghost<Seq<ReadEv>>) -> (r: Result<Vec<u8>, io::Error>)
        ensures final(reads)@ == old(reads)@.push(ReadEv { n: chunk_size as int, off: offset, got: match r { Ok(v) => Some(v@), Err(_) => None } }),
                r matches Ok(v) ==> 1 <= v@.len() <= chunk_size,
    { unimplemented!() }
}
/// The entity's Data type as far as get_range needs it: `From<Vec<u8>>`, assumed to preserve the bytes.
pub mod fdata {
    use vstd::prelude::*;
    use vstd::std_specs::convert::*;
    pub trait FileData: From<Vec<u8>> { spec fn bytes(&self) -> Seq<u8>; }
    pub broadcast axiom fn file_data_from_vec<D: FileData>(v: Vec<u8>)
        ensures (#[trigger] <D as FromSpec<Vec<u8>>>::from_spec(v)).bytes() == v@;
    pub broadcast axiom fn file_data_from_vec_obeys<D: FileData>()
        ensures #[trigger] <D as FromSpec<Vec<u8>>>::obeys_from_spec();
    pub broadcast group file_data_axioms { file_data_from_vec, file_data_from_vec_obeys }
}
use fdata::FileData;
broadcast use fdata::file_data_axioms;
/// `Box::<dyn StdError + Send + Sync>::from(e).into()` (rule R44): the I/O error boxed and converted into the entity's error type.
#[verifier::external_body]
pub fn box_error_into<E>(e: io::Error) -> (r: E) { unimplemented!() }
//@item src/file.rs :: static CHUNK_SIZE rules=R36

/// `unsafe_fmt_ascii_val!` as used by `etag` (src/lib.rs macro: write!(buf, fmt, args) into a BytesMut of initial capacity `max_len`, which grows on demand).
macro_rules! unsafe_fmt_ascii_val {
    ($max_len:expr, $fmt:literal, $a:expr, $b:expr, $c:expr, $d:expr) => { crate::fmt_hex4($max_len, $fmt, $a, $b, $c, $d) };
    ($max_len:expr, $fmt:literal, $a:expr, $b:expr, $s:expr, $c:expr, $d:expr) => { crate::fmt_hex4s($max_len, $fmt, $a, $b, $s, $c, $d) };
}
/// An argument of a formatted header value: `{:x}` of an integer, or `{}` of a string.
pub enum FArg { Hex(u64), Str(Seq<char>) }
/// Ghost meaning of a formatted value: the format literal and its arguments.  ASSUMED about core::fmt: rendering is a
/// function of (literal, arguments), `{:x}` prints lower-case hex digits without sign or padding, and for a literal whose
/// placeholders are separated by `:` distinct argument tuples render differently (hex digits contain no `:`, `-` or `"`).
pub uninterp spec fn fmt_meaning(v: HeaderValue) -> (Seq<char>, Seq<FArg>);
#[verifier::external_body]
pub fn fmt_hex4(max_len: usize, f: &'static str, a: u64, b: u64, c: u64, d: u32) -> (r: HeaderValue)
    ensures fmt_meaning(r) == (f@, seq![FArg::Hex(a), FArg::Hex(b), FArg::Hex(c), FArg::Hex(d as u64)])
{ unimplemented!() }
#[verifier::external_body]
pub fn fmt_hex4s(max_len: usize, f: &'static str, a: u64, b: u64, s: &'static str, c: u64, d: u32) -> (r: HeaderValue)
    ensures fmt_meaning(r) == (f@, seq![FArg::Hex(a), FArg::Hex(b), FArg::Str(s@), FArg::Hex(c), FArg::Hex(d as u64)])
{ unimplemented!() }

//@item src/file.rs :: struct ChunkedReadFileInner rules=T_file,T_pubfields
#[verifier::reject_recursive_types(D)]
#[verifier::reject_recursive_types(E)]
//@item src/file.rs :: struct ChunkedReadFile rules=T_file,T_pubfields

// ---- C18 (validator half), written from the property statement ----
/// The tag's meaning: a quoted (strong) tag made of inode, length and the modification time - sign, whole seconds and
/// nanoseconds of its distance from the epoch.
pub open spec fn etag_args(inode: u64, len: u64, mtime: SystemTime) -> Seq<FArg> {
    if mtime.secs >= 0 { seq![FArg::Hex(inode), FArg::Hex(len), FArg::Str(""@), FArg::Hex(mtime.secs as u64), FArg::Hex(mtime.nanos as u64)] }
    else { seq![FArg::Hex(inode), FArg::Hex(len), FArg::Str("-"@), FArg::Hex(stub::before_epoch(mtime).secs), FArg::Hex(stub::before_epoch(mtime).nanos as u64)] }
}
/// A strong entity-tag shape: opening quote, no `W/`, placeholders separated by `:`, closing quote.
pub open spec fn strong_tag_pattern() -> Seq<char> { "\"{:x}:{:x}:{}{:x}:{:x}\""@ }

//@lemma props=C18 lemma_etag_changes_when_file_changes
/// C18: the tag is a function of (inode, length, mtime) - identical for every instance opened on an unmodified file -
/// and differs once the length, the modification time or the identity (inode) differs.
proof fn lemma_etag_changes_when_file_changes(i1: u64, l1: u64, m1: SystemTime, i2: u64, l2: u64, m2: SystemTime)
    requires m1.nanos < 1_000_000_000, m2.nanos < 1_000_000_000, -0x7fff_ffff_ffff_ffff <= m1.secs, -0x7fff_ffff_ffff_ffff <= m2.secs,
    ensures /*@C18 #etag_is_injective_in_inode_len_mtime*/ etag_args(i1, l1, m1) == etag_args(i2, l2, m2) <==> (i1 == i2 && l1 == l2 && m1 == m2),
{
    reveal_strlit("");
    reveal_strlit("-");
    let a = etag_args(i1, l1, m1);
    let b = etag_args(i2, l2, m2);
    if a == b {
        assert(a[0] == b[0] && a[1] == b[1] && a[2] == b[2] && a[3] == b[3] && a[4] == b[4]);
        assert(""@.len() == 0 && "-"@.len() == 1);
        assert((m1.secs >= 0) == (m2.secs >= 0)) by {
            if (m1.secs >= 0) != (m2.secs >= 0) { assert(a[2] != b[2]); }
        }
    }
}
//@endlemma

impl<D, E> ChunkedReadFile<D, E> {
    //@fn src/file.rs :: impl ChunkedReadFile :: fn new_with_metadata props=C18 implicit=C18 rules=T_file,STD
    fn new_with_metadata(file: fs::File, metadata: &fs::Metadata, headers: HeaderMap) -> (r: Result<Self, io::Error>)
        ensures
            /*@C18 #refuses_non_regular_files*/ !fs::sp_is_file(metadata) ==> r is Err,
            /*@C18 #captures_len_inode_mtime_at_construction*/ r matches Ok(c) ==> (platform::sp_file_info(&file, metadata) matches Some(i)
                    && c.inner.len == i.len && c.inner.inode == i.inode && c.inner.mtime == i.mtime && c.inner.mtime.nanos < 1_000_000_000),
    //@body
    //@end

    //@fn src/file.rs :: impl Entity for ChunkedReadFile :: fn len props=C18
    fn len(&self) -> (r: u64)
        ensures /*@C18 #len_is_length_at_construction*/ r == self.inner.len,
    //@body
    //@end

    //@fn src/file.rs :: impl Entity for ChunkedReadFile :: fn last_modified props=C18
    fn last_modified(&self) -> (r: Option<SystemTime>)
        ensures /*@C18 #last_modified_is_mtime_at_construction*/ r == Some(self.inner.mtime),
    //@body
    //@end

    //@fn src/file.rs :: impl Entity for ChunkedReadFile :: fn etag props=C18 implicit=C18 rules=R36,STD
    fn etag(&self) -> (r: Option<HeaderValue>)
        requires self.inner.mtime.nanos < 1_000_000_000,
        ensures
            /*@C18 #etag_is_strong_tag_of_inode_len_mtime*/ r matches Some(v) && fmt_meaning(v) == (strong_tag_pattern(), etag_args(self.inner.inode, self.inner.len, self.inner.mtime)),
    //@body
    //@ at_start: proof { reveal_strlit("\"{:x}:{:x}:{}{:x}:{:x}\""); reveal_strlit("\"{:x}:{:x}:{:x}:{:x}\""); reveal_strlit(""); reveal_strlit("-"); }
    //@end
}


// ---- C18 (stream half): the step function of get_range's `unfold`, and what follows from it for every run ----
pub type StepState = (Range<u64>, Arc<ChunkedReadFileInner>);
/// One step from state `left` when the OS answers `ev`: the item yielded and the next range.
pub open spec fn step_ok(left: Range<u64>, ev: ReadEv, next: Range<u64>) -> bool {
    &&& ev.off == left.start
    &&& ev.n == (if left.end - left.start < CHUNK_SIZE as int { left.end - left.start } else { CHUNK_SIZE as int })
    &&& match ev.got {
            Some(b) => 1 <= b.len() <= left.end - left.start && next.start == left.start + b.len() && next.end == left.end,
            None => next == left,
        }
}

impl<D: FileData, E> ChunkedReadFile<D, E> {
//@fn src/file.rs :: impl Entity for ChunkedReadFile :: fn get_range as=get_range_step drop=self,range add=left,inner,reads props=C18 implicit=C18 rules=R44,STD
fn get_range_step(left: Range<u64>, inner: Arc<ChunkedReadFileInner>, reads: &mut Ghost<Seq<ReadEv>>) -> (r: Option<(Result<D, E>, StepState)>)
    requires left.start <= left.end,
    ensures
        /*@C18 #stream_ends_only_when_the_range_is_delivered*/ (left.start == left.end) == (r is None),
        /*@C18 #no_read_at_the_end*/ r is None ==> final(reads)@ == old(reads)@,
        /*@C18 #one_read_at_the_current_offset_of_at_most_the_read_size*/ r matches Some((item, (next, in2))) ==> (in2 == inner && final(reads)@.len() == old(reads)@.len() + 1
            && final(reads)@.subrange(0, old(reads)@.len() as int) =~= old(reads)@ && step_ok(left, final(reads)@.last(), next)),
        /*@C18 #chunk_is_exactly_what_was_read_and_errors_surface*/ r matches Some((item, (next, in2))) ==> (match final(reads)@.last().got {
            Some(b) => item matches Ok(d) && d.bytes() == b,
            None => item is Err }),
//@body
//@end
}

/// A run of the stream from `a..b` in which every read succeeded: the k-th read starts where the (k-1)-th ended.
pub open spec fn run_ok(a: u64, b: u64, evs: Seq<ReadEv>, k: int) -> Range<u64>
    decreases k
{
    if k <= 0 { a..b } else { let prev = run_ok(a, b, evs, k - 1); match evs[k - 1].got { Some(x) => ((prev.start + x.len()) as u64)..prev.end, None => prev } }
}
pub open spec fn delivered(evs: Seq<ReadEv>, k: int) -> Seq<u8>
    decreases k
{ if k <= 0 { Seq::empty() } else { match evs[k - 1].got { Some(x) => delivered(evs, k - 1) + x, None => delivered(evs, k - 1) } } }
pub open spec fn step_j(a: u64, b: u64, evs: Seq<ReadEv>, j: int) -> bool { evs[j].got is Some && step_ok(run_ok(a, b, evs, j), evs[j], run_ok(a, b, evs, j + 1)) }
pub open spec fn steps_ok(a: u64, b: u64, evs: Seq<ReadEv>, k: int) -> bool { forall|j: int| 0 <= j < k ==> #[trigger] step_j(a, b, evs, j) }

//@lemma props=C18 lemma_get_range_runs
/// C18, for every run (any read sizes the OS chooses, any number of steps): while the reads succeed, the chunks are
/// non-empty, the k-th read starts exactly where the bytes delivered so far end (no gap, no overlap, nothing beyond the
/// range), at most `b - a` steps are possible, and the stream can only end (`start == end`) once exactly `b - a` bytes
/// have been delivered - so a file truncated below the range end makes a read fail (error item) instead of a short end.
pub proof fn lemma_get_range_runs(a: u64, b: u64, evs: Seq<ReadEv>, k: int)
    requires a <= b, 0 <= k <= evs.len(), steps_ok(a, b, evs, k)
    ensures
        /*@C18 #reads_are_contiguous_and_inside_the_range*/ run_ok(a, b, evs, k).start == a + delivered(evs, k).len() && run_ok(a, b, evs, k).end == b && run_ok(a, b, evs, k).start <= b,
        /*@C18 #bounded_number_of_steps*/ k <= delivered(evs, k).len() <= b - a,
        /*@C18 #clean_end_means_whole_range*/ run_ok(a, b, evs, k).start == run_ok(a, b, evs, k).end ==> delivered(evs, k).len() == b - a,
    decreases k
{
    if k > 0 {
        lemma_get_range_runs(a, b, evs, k - 1);
        assert(step_j(a, b, evs, k - 1));
    }
}
//@endlemma

//@auto_helpers src/file.rs rules=T_file
//@canary_false
} // verus!
fn main() {}
