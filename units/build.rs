// Unit `build`: src/gzip.rs BodyWriter and src/lib.rs streaming_body / StreamingBodyBuilder (C17, C15, C11, C08 pass-through).
#![feature(allocator_api)]
use vstd::prelude::*;
verus! {

//@include prelude/core.rs
//@include prelude/str.rs
//@include prelude/http.rs
//@include prelude/bw.rs
use http::{HeaderMap, HeaderName, HeaderValue, HV, Method};
use http::header;
broadcast use http::lemma_without_push;
pub mod mem { pub use std::mem::{take, replace}; }
pub mod body {
    use vstd::prelude::*;
    #[verifier::reject_recursive_types(D)]
    #[verifier::reject_recursive_types(E)]
    pub enum BodyStream<D, E> { Chunker(crate::chunker::Reader<D, E>) }
    #[verifier::reject_recursive_types(D)]
    #[verifier::reject_recursive_types(E)]
    pub struct Body<D, E>(pub BodyStream<D, E>);
}
use body::Body;

/// unit `gz`: should_gzip.
pub uninterp spec fn should_gzip_s(h: &HeaderMap) -> bool;
#[verifier::external_body]
pub fn should_gzip(headers: &HeaderMap) -> (r: bool) ensures r == should_gzip_s(headers) { unimplemented!() }

// ---- src/gzip.rs ----
#[verifier::reject_recursive_types(D)]
#[verifier::reject_recursive_types(E)]
//@item src/gzip.rs :: struct BodyWriter rules=T_bw
#[verifier::reject_recursive_types(D)]
#[verifier::reject_recursive_types(E)]
//@item src/gzip.rs :: enum Inner rules=T_bw

impl<D, E> BodyWriter<D, E> {
    //@fn src/gzip.rs :: impl BodyWriter :: fn raw props=C17
    fn raw(raw: chunker::Writer<D, E>) -> (r: Self)
        ensures /*@C17 #raw_writer*/ r.0 == Inner::<D, E>::Raw(raw),
    //@body
    //@end

    //@fn src/gzip.rs :: impl BodyWriter :: fn gzipped props=C09,C17
    fn gzipped(raw: chunker::Writer<D, E>, level: flate2::Compression) -> (r: Self)
        ensures /*@C09,C17 #gzip_writer*/ r.0 matches Inner::Gzipped(g) && g.inner() == raw && g.level() == level.level,
    //@body
    //@end

    //@fn src/gzip.rs :: impl BodyWriter :: fn abort props=C11 implicit=C11
    fn abort(&mut self, error: E)
        ensures
            /*@C11 #abort_kills_writer*/ final(self).0 is Dead,
            /*@C11 #abort_reaches_chunker*/ old(self).0 matches Inner::Raw(w) ==> exists|w2: chunker::Writer<D, E>| #[trigger] w.abort_rel(w2),
    //@body
    //@end

    //@fn src/gzip.rs :: impl Write for BodyWriter :: fn write props=C08,C09,C11 implicit=C08
    fn write(&mut self, buf: &[u8]) -> (r: io::Result<usize>)
        ensures
            /*@C11 #dead_writer_rejects_write*/ old(self).0 is Dead ==> r.is_err() && final(self).0 is Dead,
            /*@C11 #failed_write_kills_writer*/ r.is_err() ==> final(self).0 is Dead,
            /*@C08 #raw_write_is_chunker_write*/ old(self).0 matches Inner::Raw(w0) ==> (r.is_ok() ==> (final(self).0 matches Inner::Raw(w1) && w0.write_rel(buf@, r, w1))),
            /*@C09 #gzip_write_is_encoder_write*/ old(self).0 matches Inner::Gzipped(g0) ==> (r.is_ok() ==> (final(self).0 matches Inner::Gzipped(g1) && g0.write_rel(buf@, r, g1))),
            /*@C17 #write_keeps_coding*/ r.is_ok() ==> (old(self).0 is Raw <==> final(self).0 is Raw) && (old(self).0 is Gzipped <==> final(self).0 is Gzipped),
    //@body
    //@end

    //@fn src/gzip.rs :: impl Write for BodyWriter :: fn flush props=C08,C09,C11 implicit=C08
    fn flush(&mut self) -> (r: io::Result<()>)
        ensures
            /*@C11 #dead_writer_rejects_flush*/ old(self).0 is Dead ==> r.is_err() && final(self).0 is Dead,
            /*@C11 #failed_flush_kills_writer*/ r.is_err() ==> final(self).0 is Dead,
            /*@C08 #raw_flush_is_chunker_flush*/ old(self).0 matches Inner::Raw(w0) ==> (r.is_ok() ==> (final(self).0 matches Inner::Raw(w1) && w0.flush_rel(r, w1))),
            /*@C09 #gzip_flush_is_two_encoder_flushes*/ old(self).0 matches Inner::Gzipped(g0) ==> (r.is_ok() ==> (final(self).0 matches Inner::Gzipped(g1)
                    && exists|gm: flate2::write::GzEncoder<chunker::Writer<D, E>>, r1: io::Result<()>| r1.is_ok() && #[trigger] g0.flush_rel(r1, gm) && gm.flush_rel(r, g1))),
    //@body
    //@end
}

// ---- src/lib.rs ----
//@item src/lib.rs :: struct StreamingBodyBuilder rules=T_pubfields
/// `AsRequest`: the two request representations `streaming_body` accepts.
pub trait AsRequest {
    spec fn method_s(&self) -> Method;
    spec fn headers_s(&self) -> HeaderMap;
    fn method(&self) -> (r: &Method) ensures *r == self.method_s();
    fn headers(&self) -> (r: &HeaderMap) ensures *r == self.headers_s();
}
impl AsRequest for http::Request {
    open spec fn method_s(&self) -> Method { self.method }
    open spec fn headers_s(&self) -> HeaderMap { self.headers }
    //@fn src/lib.rs :: impl AsRequest for Request :: fn method props=C17
    fn method(&self) -> (r: &Method)
    //@body
    //@end
    //@fn src/lib.rs :: impl AsRequest for Request :: fn headers props=C17
    fn headers(&self) -> (r: &HeaderMap)
    //@body
    //@end
}
impl AsRequest for http::request::Parts {
    open spec fn method_s(&self) -> Method { self.method }
    open spec fn headers_s(&self) -> HeaderMap { self.headers }
    //@fn src/lib.rs :: impl AsRequest for Parts :: fn method props=C17
    fn method(&self) -> (r: &Method)
    //@body
    //@end
    //@fn src/lib.rs :: impl AsRequest for Parts :: fn headers props=C17
    fn headers(&self) -> (r: &HeaderMap)
    //@body
    //@end
}

//@fn src/lib.rs :: fn streaming_body props=C15,C17
fn streaming_body<H: AsRequest>(req: &H) -> (r: StreamingBodyBuilder)
    ensures
        /*@C17 #negotiation_recorded*/ r.should_gzip == should_gzip_s(&req.headers_s()),
        /*@C15 #head_needs_no_body*/ r.body_needed == (req.method_s().k != 1),
        /*@C17 #defaults*/ r.chunk_size == 4096 && r.gzip_level == 6,
//@body
//@end

impl StreamingBodyBuilder {
    //@fn src/lib.rs :: impl StreamingBodyBuilder :: fn with_chunk_size props=C17
    fn with_chunk_size(self, chunk_size: usize) -> (r: Self)
        ensures /*@C17 #chunk_size_only*/ r.chunk_size == chunk_size && r.gzip_level == self.gzip_level && r.should_gzip == self.should_gzip && r.body_needed == self.body_needed,
    //@body
    //@end

    //@fn src/lib.rs :: impl StreamingBodyBuilder :: fn with_gzip_level props=C17
    fn with_gzip_level(self, gzip_level: u32) -> (r: Self)
        ensures /*@C17 #gzip_level_only*/ r.gzip_level == gzip_level && r.chunk_size == self.chunk_size && r.should_gzip == self.should_gzip && r.body_needed == self.body_needed,
    //@body
    //@end

    //@fn src/lib.rs :: impl StreamingBodyBuilder :: fn build props=C08,C09,C15,C17 implicit=C17
    fn build<D, E>(self) -> (r: (http::Response<crate::Body<D, E>>, Option<BodyWriter<D, E>>))
        requires self.chunk_size > 0,
        ensures
            /*@C17 #vary_always*/ r.0.extra.appended@.len() >= 1 && r.0.extra.appended@[0] == (HeaderName::VARY, HV::Static("accept-encoding"@)),
            /*@C17 #content_encoding_iff_negotiated*/ r.0.extra.appended@ =~= (if self.should_gzip && self.gzip_level > 0 {
                    seq![(HeaderName::VARY, HV::Static("accept-encoding"@)), (HeaderName::CONTENT_ENCODING, HV::Static("gzip"@))]
                } else { seq![(HeaderName::VARY, HV::Static("accept-encoding"@))] }),
            /*@C17 #get_headers*/ self.body_needed ==> r.0.extra.appended@ =~= (if self.should_gzip && self.gzip_level > 0 {
                    seq![(HeaderName::VARY, HV::Static("accept-encoding"@)), (HeaderName::CONTENT_ENCODING, HV::Static("gzip"@))]
                } else { seq![(HeaderName::VARY, HV::Static("accept-encoding"@))] }),
            /*@C15 #head_headers_as_get unless=get_headers*/ !self.body_needed ==> r.0.extra.appended@ =~= (if self.should_gzip && self.gzip_level > 0 {
                    seq![(HeaderName::VARY, HV::Static("accept-encoding"@)), (HeaderName::CONTENT_ENCODING, HV::Static("gzip"@))]
                } else { seq![(HeaderName::VARY, HV::Static("accept-encoding"@))] }),
            /*@C17 #writer_coding_matches_header*/ r.1 matches Some(w) ==> (if self.should_gzip && self.gzip_level > 0 { w.0 matches Inner::Gzipped(g) && g.level() == self.gzip_level } else { w.0 is Raw }),
            /*@C09 #negotiated_gzip_gets_an_encoder_of_the_configured_level*/ r.1 matches Some(w) ==> ((self.should_gzip && self.gzip_level > 0) ==> (w.0 matches Inner::Gzipped(g) && g.level() == self.gzip_level)),
            /*@C15 #no_writer_for_head*/ r.1.is_some() == self.body_needed,
            /*@C15,C17 #status_and_builder_headers*/ r.0.v@.status == 200 && r.0.v@.hdrs.len() == 0,
            /*@C08,C09 #writer_feeds_this_body*/ r.1 matches Some(w) ==> (r.0.body.0 matches body::BodyStream::Chunker(rd) && match w.0 {
                    Inner::Raw(cw) => cw.paired_with(&rd) && cw.chunk_size() == self.chunk_size,
                    Inner::Gzipped(g) => g.inner().paired_with(&rd) && g.inner().chunk_size() == self.chunk_size,
                    Inner::Dead => false }),
    //@body
    //@end
}

//@auto_helpers src/lib.rs src/gzip.rs rules=T_bw
//@canary_false
} // verus!
fn main() {}
