// Kani harnesses attached (under cfg(kani)) to src/range.rs of a scratch copy of /repo.  K1: the REAL `parse` (real
// split / find / trim_start_matches / slicing on `str`) on concrete header templates, with `u64::from_str` stubbed so that
// every number in the header is an unconstrained u64 (or unparseable).  Complete for each template shape; the set of
// shapes is the bound.
#![allow(dead_code, static_mut_refs)]
use super::{parse, ResolvedRanges};
use http::header::HeaderValue;
use std::str::FromStr;

static mut NUMS: [Option<u64>; 4] = [None; 4];
static mut NEXT: usize = 0;

fn stub_from_str(_s: &str) -> Result<u64, std::num::ParseIntError> {
    let ok: bool = kani::any();
    let v: u64 = kani::any();
    unsafe {
        NUMS[NEXT] = if ok { Some(v) } else { None };
        NEXT += 1;
    }
    if ok {
        Ok(v)
    } else {
        u64::from_str_radix("x", 10)
    }
}

#[derive(Clone, Copy)]
enum Form {
    Closed, // a-b
    From,   // a-
    Suffix, // -n
}

/// RFC 7233 resolution of one spec (C03), half-open; None = selects nothing.
fn resolve(f: Form, a: u64, b: u64, len: u64) -> Option<(u64, u64)> {
    match f {
        Form::Suffix => {
            let m = if a <= len { a } else { len };
            if m == 0 { None } else { Some((len - m, len)) }
        }
        Form::From => if a < len { Some((a, len)) } else { None },
        Form::Closed => {
            if a < len && a <= b { Some((a, (if b <= len - 1 { b } else { len - 1 }) + 1)) } else { None }
        }
    }
}

fn check(template: &'static str, forms: &[Form]) {
    let len: u64 = kani::any();
    unsafe { NEXT = 0; }
    let hv = HeaderValue::from_static(template);
    let r = parse(Some(&hv), len);
    // expected from the numbers the stub handed out, in order
    let mut k = 0usize;
    let mut exp: [Option<(u64, u64)>; 2] = [None, None];
    let mut nexp = 0usize;
    let mut unparseable = false;
    let mut fi = 0;
    while fi < forms.len() {
        let f = forms[fi];
        let a = unsafe { NUMS[k] };
        k += 1;
        let b = if let Form::Closed = f { let x = unsafe { NUMS[k] }; k += 1; x } else { Some(0) };
        match (a, b) {
            (Some(a), Some(b)) => {
                if let Some(x) = resolve(f, a, b, len) { exp[nexp] = Some(x); nexp += 1; }
            }
            _ => { unparseable = true; break; }
        }
        fi += 1;
    }
    if unparseable {
        assert!(r == ResolvedRanges::None);
    } else if nexp == 0 {
        assert!(r == ResolvedRanges::NotSatisfiable);
        kani::cover!(true);
    } else {
        match r {
            ResolvedRanges::Satisfiable(v) => {
                assert!(v.len() == nexp);
                let mut i = 0;
                while i < nexp {
                    let (s, e) = exp[i].unwrap();
                    assert!(v[i].start == s && v[i].end == e);
                    i += 1;
                }
                kani::cover!(nexp == forms.len());
            }
            _ => assert!(false),
        }
    }
}

#[kani::proof]
#[kani::unwind(12)]
#[kani::stub(<u64 as FromStr>::from_str, stub_from_str)]
fn k1_closed() { check("bytes=1-2", &[Form::Closed]); }

#[kani::proof]
#[kani::unwind(12)]
#[kani::stub(<u64 as FromStr>::from_str, stub_from_str)]
fn k1_from() { check("bytes=1-", &[Form::From]); }

#[kani::proof]
#[kani::unwind(12)]
#[kani::stub(<u64 as FromStr>::from_str, stub_from_str)]
fn k1_suffix() { check("bytes=-1", &[Form::Suffix]); }

#[kani::proof]
#[kani::unwind(16)]
#[kani::stub(<u64 as FromStr>::from_str, stub_from_str)]
fn k1_two_ows() { check("bytes=1-2, \t-3", &[Form::Closed, Form::Suffix]); }

#[kani::proof]
#[kani::unwind(12)]
#[kani::stub(<u64 as FromStr>::from_str, stub_from_str)]
fn k1_other_unit() {
    let len: u64 = kani::any();
    let hv = HeaderValue::from_static("items=1-2");
    assert!(parse(Some(&hv), len) == ResolvedRanges::None);
    let hv = HeaderValue::from_static("bytes=12");
    assert!(parse(Some(&hv), len) == ResolvedRanges::None);
}

#[kani::proof]
#[kani::unwind(12)]
#[kani::stub(<u64 as FromStr>::from_str, stub_from_str)]
fn k1_leading_ows() { check("bytes= \t1-2", &[Form::Closed]); }

#[kani::proof]
#[kani::unwind(16)]
#[kani::stub(<u64 as FromStr>::from_str, stub_from_str)]
fn k1_two_from() { check("bytes=1-,2-3", &[Form::From, Form::Closed]); }

/// Positions are `1*DIGIT`: a sign makes the header ungrammatical, so it is ignored (u64::from_str alone would accept `+1`).
#[kani::proof]
#[kani::unwind(16)]
#[kani::stub(<u64 as FromStr>::from_str, stub_from_str)]
fn k1_signed_positions() {
    let len: u64 = kani::any();
    let hv = HeaderValue::from_static("bytes=+1-2");
    assert!(parse(Some(&hv), len) == ResolvedRanges::None);
    let hv = HeaderValue::from_static("bytes=1-+2");
    assert!(parse(Some(&hv), len) == ResolvedRanges::None);
    let hv = HeaderValue::from_static("bytes=-+2");
    assert!(parse(Some(&hv), len) == ResolvedRanges::None);
}
