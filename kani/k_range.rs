// Kani harnesses attached (under cfg(kani)) to src/range.rs of a scratch copy of /repo.  K1: the REAL `parse` (real
// split / find / trim_matches / slicing on `str`) on concrete header templates, with `parse_pos` stubbed so that
// every number in the header is an unconstrained u64 (or unparseable).  Complete for each template shape; the set of
// shapes is the bound.  K1p: the REAL `parse_pos` (digit loop, `is_ascii_digit`, saturating arithmetic) on every ASCII
// string of at most 4 bytes and on 20..=22-digit strings around 2^64 (bounded), against 128-bit reference arithmetic.
#![allow(dead_code, static_mut_refs)]
use super::{parse, parse_pos, ResolvedRanges};
use http::header::HeaderValue;

static mut NUMS: [Option<u64>; 4] = [None; 4];
static mut NEXT: usize = 0;

fn stub_parse_pos(_s: &str) -> Option<u64> {
    let ok: bool = kani::any();
    let v: u64 = kani::any();
    unsafe {
        NUMS[NEXT] = if ok { Some(v) } else { None };
        NEXT += 1;
    }
    if ok {
        Some(v)
    } else {
        None
    }
}

#[derive(Clone, Copy)]
enum Form {
    Closed, // a-b
    From,   // a-
    Suffix, // -n
}

/// RFC 7233 resolution of one spec (C03), half-open; None = selects nothing.
fn resolve(f: Form, a: u64, b: u64, len: u64) -> Option<(u64, u64)> {
    match f {
        Form::Suffix => {
            let m = if a <= len { a } else { len };
            if m == 0 { None } else { Some((len - m, len)) }
        }
        Form::From => if a < len { Some((a, len)) } else { None },
        Form::Closed => {
            if a < len && a <= b { Some((a, (if b <= len - 1 { b } else { len - 1 }) + 1)) } else { None }
        }
    }
}

fn check(template: &'static str, forms: &[Form]) {
    let len: u64 = kani::any();
    unsafe { NEXT = 0; }
    let hv = HeaderValue::from_static(template);
    let r = parse(Some(&hv), len);
    // expected from the numbers the stub handed out, in order
    let mut k = 0usize;
    let mut exp: [Option<(u64, u64)>; 2] = [None, None];
    let mut nexp = 0usize;
    let mut unparseable = false;
    let mut fi = 0;
    while fi < forms.len() {
        let f = forms[fi];
        let a = unsafe { NUMS[k] };
        k += 1;
        let b = if let Form::Closed = f { let x = unsafe { NUMS[k] }; k += 1; x } else { Some(0) };
        match (a, b) {
            (Some(a), Some(b)) => {
                if let Some(x) = resolve(f, a, b, len) { exp[nexp] = Some(x); nexp += 1; }
            }
            _ => { unparseable = true; break; }
        }
        fi += 1;
    }
    if unparseable {
        assert!(r == ResolvedRanges::None);
    } else if nexp == 0 {
        assert!(r == ResolvedRanges::NotSatisfiable);
        kani::cover!(true);
    } else {
        match r {
            ResolvedRanges::Satisfiable(v) => {
                assert!(v.len() == nexp);
                let mut i = 0;
                while i < nexp {
                    let (s, e) = exp[i].unwrap();
                    assert!(v[i].start == s && v[i].end == e);
                    i += 1;
                }
                kani::cover!(nexp == forms.len());
            }
            _ => assert!(false),
        }
    }
}

#[kani::proof]
#[kani::unwind(12)]
#[kani::stub(parse_pos, stub_parse_pos)]
fn k1_closed() { check("bytes=1-2", &[Form::Closed]); }

#[kani::proof]
#[kani::unwind(12)]
#[kani::stub(parse_pos, stub_parse_pos)]
fn k1_from() { check("bytes=1-", &[Form::From]); }

#[kani::proof]
#[kani::unwind(12)]
#[kani::stub(parse_pos, stub_parse_pos)]
fn k1_suffix() { check("bytes=-1", &[Form::Suffix]); }

#[kani::proof]
#[kani::unwind(16)]
#[kani::stub(parse_pos, stub_parse_pos)]
fn k1_two_ows() { check("bytes=1-2, \t-3", &[Form::Closed, Form::Suffix]); }

#[kani::proof]
#[kani::unwind(12)]
#[kani::stub(parse_pos, stub_parse_pos)]
fn k1_other_unit() {
    let len: u64 = kani::any();
    let hv = HeaderValue::from_static("items=1-2");
    assert!(parse(Some(&hv), len) == ResolvedRanges::None);
    let hv = HeaderValue::from_static("bytes=12");
    assert!(parse(Some(&hv), len) == ResolvedRanges::None);
}

#[kani::proof]
#[kani::unwind(12)]
#[kani::stub(parse_pos, stub_parse_pos)]
fn k1_leading_ows() { check("bytes= \t1-2", &[Form::Closed]); }

#[kani::proof]
#[kani::unwind(16)]
#[kani::stub(parse_pos, stub_parse_pos)]
fn k1_two_from() { check("bytes=1-,2-3", &[Form::From, Form::Closed]); }

/// Positions are `1*DIGIT`: a sign makes the header ungrammatical, so it is ignored (`u64::from_str` would accept `+1`); REAL parse_pos.
#[kani::proof]
#[kani::unwind(16)]
fn k1_signed_positions() {
    let len: u64 = kani::any();
    let hv = HeaderValue::from_static("bytes=+1-2");
    assert!(parse(Some(&hv), len) == ResolvedRanges::None);
    let hv = HeaderValue::from_static("bytes=1-+2");
    assert!(parse(Some(&hv), len) == ResolvedRanges::None);
    let hv = HeaderValue::from_static("bytes=-+2");
    assert!(parse(Some(&hv), len) == ResolvedRanges::None);
}

/// OWS before the comma is part of the list grammar (RFC 7230 7: `element *( OWS "," OWS element )`).
#[kani::proof]
#[kani::unwind(20)]
#[kani::stub(parse_pos, stub_parse_pos)]
fn k1_ows_before_comma() { check("bytes=1-2 \t, -3", &[Form::Closed, Form::Suffix]); }

/// Reference: `1*DIGIT` of any length, saturating at u64::MAX (128-bit arithmetic; at most 22 digits here).
fn ref_pos(b: &[u8]) -> Option<u64> {
    if b.is_empty() { return None; }
    let mut v: u128 = 0;
    let mut i = 0;
    while i < b.len() {
        if b[i] < b'0' || b[i] > b'9' { return None; }
        v = v * 10 + (b[i] - b'0') as u128;
        i += 1;
    }
    Some(if v > u64::MAX as u128 { u64::MAX } else { v as u64 })
}

#[kani::proof]
#[kani::unwind(6)]
fn k1p_parse_pos_ascii_len_le_4() {
    let bytes: [u8; 4] = kani::any();
    let n: usize = kani::any();
    kani::assume(n <= 4);
    let mut i = 0;
    while i < 4 { kani::assume(bytes[i] < 0x80); i += 1; }
    let s = unsafe { std::str::from_utf8_unchecked(&bytes[..n]) };
    assert!(parse_pos(s) == ref_pos(&bytes[..n]));
}

/// 20 digits: the values around 2^64 = 18446744073709551616 (every last digit), saturation must be exact.
#[kani::proof]
#[kani::unwind(24)]
fn k1p_parse_pos_around_2_64() {
    let mut bytes = *b"18446744073709551610";
    let d: u8 = kani::any();
    kani::assume(d <= 9);
    bytes[19] = b'0' + d;
    let s = unsafe { std::str::from_utf8_unchecked(&bytes[..]) };
    let exp = if d <= 5 { 18446744073709551610u64 + d as u64 } else { u64::MAX };
    assert!(parse_pos(s) == Some(exp));
    let big = "99999999999999999999999";
    assert!(parse_pos(big) == Some(u64::MAX));
}
