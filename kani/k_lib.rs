// Kani harnesses attached (under cfg(kani)) to the crate root of a scratch copy of /repo: they see the private
// `parse_qvalue`.  K4: real lexing of qvalues, all ASCII strings of length <= 6 (bounded; every grammatical qvalue has <= 5 bytes).
#![allow(dead_code)]

/// RFC 7231 5.3.1: qvalue = ( "0" [ "." 0*3DIGIT ] ) / ( "1" [ "." 0*3("0") ] ), as thousandths.
fn qvalue_oracle(b: &[u8]) -> Option<u16> {
    if b.is_empty() || b.len() > 5 {
        return None;
    }
    if b[0] != b'0' && b[0] != b'1' {
        return None;
    }
    if b.len() == 1 {
        return Some(if b[0] == b'1' { 1000 } else { 0 });
    }
    if b[1] != b'.' {
        return None;
    }
    let mut v: u16 = 0;
    let mut scale: u16 = 100;
    let mut i = 2;
    while i < b.len() {
        let d = b[i];
        if !(b'0'..=b'9').contains(&d) {
            return None;
        }
        if b[0] == b'1' && d != b'0' {
            return None;
        }
        v += (d - b'0') as u16 * scale;
        scale /= 10;
        i += 1;
    }
    Some(if b[0] == b'1' { 1000 } else { v })
}

#[kani::proof]
#[kani::unwind(8)]
fn k4_parse_qvalue_ascii_len_le_6() {
    let n: usize = kani::any();
    kani::assume(n <= 6);
    let bytes: [u8; 6] = kani::any();
    let mut i = 0;
    while i < 6 {
        kani::assume(bytes[i] < 128);
        i += 1;
    }
    let s = match std::str::from_utf8(&bytes[..n]) {
        Ok(s) => s,
        Err(_) => return,
    };
    // no panic for any ASCII string (C16: "no header value makes it panic"); grammatical qvalues get their value.
    let r = super::parse_qvalue(s);
    if let Some(q) = qvalue_oracle(&bytes[..n]) {
        assert!(r == Ok(q));
        kani::cover!(q == 1000);
        kani::cover!(q == 1);
        kani::cover!(q == 0);
    }
    if let Ok(q) = r {
        assert!(q <= 1000);
    }
}
